#!/bin/bash
# usage: confirm_seed.sh <worktree> <demo test name (tests/<name>.rs)> [extra cargo test args after --]
# Confirms in the scratch worktree (private target dir, sequential): with the patch the pinned suite passes and
# the demo fails; without it the demo passes.
set -u
WT="$1"; DEMO="$2"; shift 2
export CARGO_TARGET_DIR=${CONFIRM_TARGET:-/tmp/confirm_target}
cd "$WT" || exit 2
t() { find src tests -name '*.rs' -exec touch {} +; }
echo "== with patch: pinned suite (demo moved aside)"
mkdir -p /tmp/demo_aside_$$ && mv tests/$DEMO.rs /tmp/demo_aside_$$/
t; cargo test --workspace --offline 2>&1 | grep -E "^test result: .* [0-9]+ passed" | head -1
mv /tmp/demo_aside_$$/$DEMO.rs tests/
echo "== with patch: demo"
t; cargo test --offline --test $DEMO -- "$@" 2>&1 | grep -E "^test result|^test .* (FAILED|ok)" | head -12
echo "== without patch: demo"
git apply -R SEED/patch.diff && t && cargo test --offline --test $DEMO -- "$@" 2>&1 | grep -E "^test result" | head -3
git apply SEED/patch.diff
rmdir /tmp/demo_aside_$$ 2>/dev/null
