#!/bin/bash
# usage: tools/run_all.sh quick|thorough   runs every claimed check in turn, prints one line per check
cd "$(dirname "$0")/.." || exit 2
T=${1:-quick}; bad=0
for id in $(python3 -c "import json;print(' '.join(c['property_id'] for c in json.load(open('MANIFEST.json'))['checks']))"); do
  t0=$(date +%s); out=$(./check $id $T 2>&1); code=$?; t1=$(date +%s)
  echo "$id exit=$code $((t1-t0))s known=$(echo "$out" | grep -c '^KNOWN-FINDING') :: $(echo "$out" | grep '^# [0-9]' | cut -c1-150)"
  if [ "$T" = thorough ]; then mkdir -p evidence-thorough; cp evidence/$id.json evidence-thorough/$id.json; fi
  [ $code -eq 0 ] || { bad=1; echo "$out" | grep -E "^VIOLATION|^  rule|HARNESS" | head -5; }
done
exit $bad
