#!/bin/bash
# Sensitivity self-test: every seeded breaking change under /verif/seeded is applied to /repo in turn
# (git apply; never committed), the quick check of the property it breaks must exit 1 with a VIOLATION
# line and its replay must reproduce; the tree is restored (git checkout -- .) after each one.
# usage: tools/check_seeds.sh [name-prefix]      result table in sensitivity.json
set -u
cd /verif || exit 2
if [ -n "$(git -C /repo status --porcelain --untracked-files=no)" ]; then echo "HARNESS-ERROR: /repo has uncommitted changes"; exit 2; fi
OUT=/verif/sensitivity.json
echo "[" > $OUT.tmp; first=1; missed=0
for d in seeded/${1:-}*/; do
  name=$(basename $d)
  # the check that decides: that of the property the change was aimed at, unless meta.json names the check of a
  # neighbouring property (decided_by) because the defect lies in that property's territory
  prop=$(python3 -c "import json;m=json.load(open('$d/meta.json'));print(m.get('decided_by', m['breaks_property']))")
  git -C /repo apply "/verif/$d/patch.diff" || { echo "HARNESS-ERROR: $name does not apply"; git -C /repo checkout -- .; exit 2; }
  t0=$(date +%s)
  out=$(./check $prop quick 2>&1); code=$?
  replay=$(echo "$out" | grep -m1 '^VIOLATION' | sed 's/.*replay=//')
  rule=$(echo "$out" | grep -m1 '^  rule=' | cut -c1-200)
  rcode=-1
  if [ $code -eq 1 ] && [ -n "$replay" ]; then ./check $prop --replay "$replay" >/dev/null 2>&1; rcode=$?; fi
  git -C /repo checkout -- .
  t1=$(date +%s)
  res="caught"; [ $code -eq 1 ] || { res="MISSED"; missed=$((missed+1)); }
  echo "$name property=$prop $res exit=$code replay_exit=$rcode $((t1-t0))s :: $rule"
  [ $first -eq 1 ] || echo "," >> $OUT.tmp; first=0
  python3 - "$name" "$prop" "$res" "$code" "$rcode" "$rule" >> $OUT.tmp <<'PY'
import json,sys
n,p,r,c,rc,rule=sys.argv[1:7]
print(json.dumps({"seeded_change":n,"property":p,"result":r,"check_exit":int(c),"replay_exit":int(rc),"first_rule":rule.strip()}))
PY
done
echo "]" >> $OUT.tmp; mv $OUT.tmp $OUT
./check build >/dev/null 2>&1
[ $missed -eq 0 ] && { echo "all seeded changes caught"; exit 0; } || { echo "$missed seeded change(s) MISSED"; exit 1; }
