#!/bin/bash
# usage: try_seed.sh <patch.diff> <check id>...   applies the seeded change to /repo, runs the checks, reverts.
set -u
P="$1"; shift
R=${VERIF_REPO:-/repo}; cd $R && git apply "$P" || { echo "patch does not apply"; exit 2; }
for c in "$@"; do
  echo "---- $c"
  (cd /verif && ./check $c quick 2>&1 | grep -v "^KNOWN" | grep -E "^VIOLATION|^  rule|^#|HARNESS" | cut -c1-330 | head -8)
done
cd $R && git checkout -- . && git status --short | head -3
