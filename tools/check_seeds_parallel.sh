#!/bin/bash
# Sensitivity self-test, parallel variant of tools/check_seeds.sh: N lanes, each with its own scratch copy of
# /verif (incl. the simulator's build directory) and its own scratch worktree of /repo under /tmp, so /repo
# itself is never touched. Each seeded change is applied in a lane's worktree, the deciding quick check must
# exit 1 with a VIOLATION line and its replay must reproduce. Result table: /verif/sensitivity.json.
# usage: tools/check_seeds_parallel.sh [lanes=4]      (scratch copies are removed at the end)
set -u
N=${1:-4}
cd /verif || exit 2
HEAD=$(git -C /repo rev-parse HEAD)
# SEED_FILTER (a regular expression on the directory name) restricts the run; the result file then holds those rows only
ls -d seeded/*/ | sed 's#/$##' | grep -E "${SEED_FILTER:-.}" > /tmp/seedlist.$$
for k in $(seq 0 $((N-1))); do
  L=/tmp/seedlane$k; rm -rf $L; mkdir -p $L
  rsync -a --exclude .git --exclude replays --exclude evidence-thorough /verif/ $L/verif/
  git -C /repo worktree add -q --detach $L/repo $HEAD || exit 2
  (
    cd $L/verif
    export VERIF_REPO=$L/repo
    i=0
    while read d; do
      if [ $((i % N)) -eq $k ]; then
        name=$(basename $d)
        prop=$(python3 -c "import json;m=json.load(open('/verif/$d/meta.json'));print(m.get('decided_by', m['breaks_property']))")
        git -C $L/repo apply "/verif/$d/patch.diff" || { echo "{\"seeded_change\":\"$name\",\"property\":\"$prop\",\"result\":\"HARNESS-ERROR patch does not apply\",\"check_exit\":2,\"replay_exit\":-1,\"first_rule\":\"\"}" >> $L/results.jsonl; git -C $L/repo checkout -- .; i=$((i+1)); continue; }
        out=$(./check $prop quick 2>&1); code=$?
        replay=$(echo "$out" | grep -m1 '^VIOLATION' | sed 's/.*replay=//')
        rule=$(echo "$out" | grep -m1 '^  rule=' | cut -c1-200)
        rcode=-1
        if [ $code -eq 1 ] && [ -n "$replay" ]; then ./check $prop --replay "$replay" >/dev/null 2>&1; rcode=$?; fi
        git -C $L/repo checkout -- .
        res="caught"; [ $code -eq 1 ] || res="MISSED"
        echo "$name property=$prop $res exit=$code replay_exit=$rcode :: $rule"
        python3 - "$name" "$prop" "$res" "$code" "$rcode" "$rule" >> $L/results.jsonl <<'PY'
import json,sys
n,p,r,c,rc,rule=sys.argv[1:7]
print(json.dumps({"seeded_change":n,"property":p,"result":r,"check_exit":int(c),"replay_exit":int(rc),"first_rule":rule.strip()}))
PY
      fi
      i=$((i+1))
    done < /tmp/seedlist.$$
  ) > $L/log 2>&1 &
done
wait
python3 - $N <<'PY'
import json,sys,glob
rows=[]
for k in range(int(sys.argv[1])):
    try:
        rows += [json.loads(l) for l in open(f'/tmp/seedlane{k}/results.jsonl') if l.strip()]
    except FileNotFoundError:
        pass
rows.sort(key=lambda r:r['seeded_change'])
json.dump(rows,open('/verif/sensitivity.json','w'),indent=0)
missed=[r['seeded_change'] for r in rows if r['result']!='caught']
noreplay=[r['seeded_change'] for r in rows if r['result']=='caught' and r['replay_exit']!=1]
print(f"{len(rows)} seeded changes, {len(rows)-len(missed)} caught, missed: {missed}, replay not reproduced: {noreplay}")
PY
for k in $(seq 0 $((N-1))); do git -C /repo worktree remove --force /tmp/seedlane$k/repo; rm -rf /tmp/seedlane$k; done
git -C /repo worktree prune; rm -f /tmp/seedlist.$$
