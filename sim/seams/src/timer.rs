//! Simulated replacement for the `timer` crate (0.2): same API surface as rFSM uses
//! (`Timer::new`, `schedule_with_delay`, `Guard` with drop-cancels and `ignore()`), driven by the
//! simulated clock in the recorder. The callback (real rFSM code) runs on a per-Timer shuttle task.

use crate::rec::{self, RecKind, TimerItem};
use shuttle::sync::{Condvar, Mutex};
use std::cell::RefCell;
use std::sync::{Arc, Weak};

type Callback = Box<dyn FnMut() + Send>;

struct Queue {
    items: Vec<(u64, u64, Callback)>, // (item id, due, callback)
    stop: bool,
    spawned: bool,
}

struct Shared {
    q: Mutex<Queue>,
    cv: Condvar,
}

pub struct Timer {
    id: usize,
    shared: Arc<Shared>,
}

pub struct Guard {
    item: u64,
    live: bool,
}

thread_local! {
    static TIMERS: RefCell<Vec<Weak<Shared>>> = const { RefCell::new(Vec::new()) };
    static CLOCK: RefCell<Option<Arc<ClockCtl>>> = const { RefCell::new(None) };
}

/// Jitter mode: a clock task that, whenever the scheduler picks it, moves the clock to the next due
/// item - timers become due while sessions are in the middle of a macrostep.
struct ClockCtl {
    stop: Mutex<bool>,
    cv: Condvar,
}

fn clock_ctl() -> Option<Arc<ClockCtl>> {
    CLOCK.with(|c| c.borrow().clone())
}

fn notify_clock() {
    if let Some(c) = clock_ctl() {
        let _g = c.stop.lock().unwrap();
        c.cv.notify_all();
    }
}

/// Start the jitter clock task (driver only). `max_jump` bounds how far one step may move the clock.
pub fn start_jitter_clock() -> shuttle::thread::JoinHandle<()> {
    let ctl = Arc::new(ClockCtl { stop: Mutex::new(false), cv: Condvar::new() });
    CLOCK.with(|c| *c.borrow_mut() = Some(ctl.clone()));
    shuttle::thread::Builder::new()
        .name("clock".to_string())
        .spawn(move || {
            let me = rec::current_task();
            rec::with(|r| {
                r.task_names.insert(me, "clock".to_string());
            });
            loop {
                {
                    let mut g = ctl.stop.lock().unwrap();
                    loop {
                        if *g {
                            return;
                        }
                        // only something that lies in the future can be advanced to; items that are
                        // already due are the timer tasks' business
                        if rec::with(|r| r.next_due().map(|d| d > r.now).unwrap_or(false)) {
                            break;
                        }
                        g = ctl.cv.wait(g).unwrap();
                    }
                }
                if let Some(d) = rec::with(|r| r.next_due()) {
                    rec::with(|r| r.bump("jitter_clock_advance"));
                    advance_to(d);
                }
                shuttle::thread::yield_now();
            }
        })
        .unwrap()
}

pub fn stop_jitter_clock(h: shuttle::thread::JoinHandle<()>) {
    if let Some(c) = clock_ctl() {
        {
            let mut g = c.stop.lock().unwrap();
            *g = true;
            c.cv.notify_all();
        }
        let _ = h.join();
    }
    CLOCK.with(|c| *c.borrow_mut() = None);
}

fn recompute_inflight(r: &mut rec::Recorder) {
    let now = r.now;
    r.timers_inflight = r
        .timer_items
        .values()
        .filter(|i| i.due <= now && !i.cancelled && !i.discarded && !i.done)
        .count();
}

impl Timer {
    #[allow(clippy::new_without_default)]
    pub fn new() -> Timer {
        let id = rec::with(|r| {
            let i = r.next_timer;
            r.next_timer += 1;
            i
        });
        let shared = Arc::new(Shared { q: Mutex::new(Queue { items: Vec::new(), stop: false, spawned: false }), cv: Condvar::new() });
        TIMERS.with(|t| t.borrow_mut().push(Arc::downgrade(&shared)));
        Timer { id, shared }
    }

    pub fn schedule_with_delay<F>(&self, delay: chrono::Duration, cb: F) -> Guard
    where
        F: 'static + FnMut() + Send,
    {
        let delay_ms = delay.num_milliseconds();
        {
            // The timer crate computes `Utc::now() + delay` (chrono panics when that leaves the range of
            // DateTime). Same arithmetic on the simulated clock: epoch 2026-01-01T00:00:00Z + now.
            let now_ms = rec::with(|r| r.now) as i64;
            let base = chrono::DateTime::<chrono::Utc>::from_timestamp(1_767_225_600 + now_ms / 1000, 0).expect("simulated date");
            if base.checked_add_signed(delay).is_none() {
                panic!("`DateTime + TimeDelta` overflowed");
            }
        }
        let timer = self.id;
        let (item, due) = rec::with(|r| {
            let item = r.next_item;
            r.next_item += 1;
            let due = r.now + delay_ms.max(0) as u64;
            r.timer_items.insert(item, TimerItem { id: item, timer, due, ..Default::default() });
            r.push(RecKind::TimerSched { timer, item, due, delay: delay_ms });
            recompute_inflight(r);
            (item, due)
        });
        let need_spawn = {
            let mut q = self.shared.q.lock().unwrap();
            q.items.push((item, due, Box::new(cb)));
            let n = !q.spawned;
            q.spawned = true;
            n
        };
        if need_spawn {
            rec::with(|r| r.timer_tasks_live += 1);
            let shared = self.shared.clone();
            let _detached = shuttle::thread::Builder::new()
                .name(format!("timer_{}", timer))
                .spawn(move || timer_task(shared))
                .unwrap();
        }
        self.shared.cv.notify_all();
        notify_clock();
        Guard { item, live: true }
    }
}

fn timer_task(shared: Arc<Shared>) {
    let me = rec::current_task();
    rec::with(|r| {
        r.task_names.insert(me, "timer".to_string());
    });
    timer_loop(shared);
    rec::with(|r| r.timer_tasks_live -= 1);
    crate::driver::notify_if_waiting();
}

fn timer_loop(shared: Arc<Shared>) {
    loop {
        let mut cb: Option<(u64, Callback)> = None;
        {
            let mut q = shared.q.lock().unwrap();
            loop {
                if q.stop {
                    return;
                }
                // earliest due item that is due now; cancelled ones are dropped
                let now = rec::with(|r| r.now);
                let mut best: Option<usize> = None;
                for (idx, (_, due, _)) in q.items.iter().enumerate() {
                    if *due <= now {
                        match best {
                            None => best = Some(idx),
                            Some(b) => {
                                if (q.items[idx].1, q.items[idx].0) < (q.items[b].1, q.items[b].0) {
                                    best = Some(idx)
                                }
                            }
                        }
                    }
                }
                if let Some(idx) = best {
                    let (item, _due, f) = q.items.remove(idx);
                    let run = rec::with(|r| {
                        let it = r.timer_items.get_mut(&item).unwrap();
                        if it.cancelled || it.discarded {
                            false
                        } else {
                            it.fired = true;
                            r.push(RecKind::TimerFire { item });
                            true
                        }
                    });
                    if run {
                        cb = Some((item, f));
                        break;
                    } else {
                        drop(f);
                        continue;
                    }
                }
                q = shared.cv.wait(q).unwrap();
            }
        }
        if let Some((item, mut f)) = cb {
            f();
            drop(f);
            rec::with(|r| {
                r.timer_items.get_mut(&item).unwrap().done = true;
                r.push(RecKind::TimerFireDone { item });
                recompute_inflight(r);
            });
            crate::driver::maybe_notify();
            notify_clock();
        }
    }
}

impl Drop for Timer {
    fn drop(&mut self) {
        let timer = self.id;
        // (this also runs while a session thread unwinds from a panic, possibly with the queue lock poisoned by a
        // panic of the timer task: a destructor must not panic itself)
        let dropped: Vec<Callback> = {
            let mut q = match self.shared.q.lock() {
                Ok(q) => q,
                Err(p) => p.into_inner(),
            };
            q.stop = true;
            q.items.drain(..).map(|x| x.2).collect()
        };
        if std::thread::panicking() {
            let _ = rec::try_with(|r| {
                r.push(RecKind::TimerDrop { timer, discarded: 0 });
            });
            drop(dropped);
            return;
        }
        rec::with(|r| {
            let mut n = 0;
            for it in r.timer_items.values_mut() {
                if it.timer == timer && !it.fired && !it.cancelled && !it.discarded {
                    it.discarded = true;
                    n += 1;
                }
            }
            r.push(RecKind::TimerDrop { timer, discarded: n });
            recompute_inflight(r);
        });
        drop(dropped);
        self.shared.cv.notify_all();
        crate::driver::maybe_notify();
    }
}

impl Guard {
    /// Keep the callback scheduled although the guard goes away.
    pub fn ignore(mut self) {
        self.live = false;
    }
}

impl Drop for Guard {
    fn drop(&mut self) {
        if self.live {
            let item = self.item;
            let notify = rec::with(|r| {
                let it = r.timer_items.get_mut(&item).unwrap();
                let fired = it.fired;
                if !fired {
                    it.cancelled = true;
                }
                r.push(RecKind::TimerCancel { item, fired });
                recompute_inflight(r);
                !fired
            });
            if notify && !std::thread::panicking() {
                crate::driver::maybe_notify();
            }
        }
    }
}

/// Driver side: move the simulated clock forward and wake all timer tasks.
pub fn advance_to(t: u64) {
    rec::with(|r| {
        if t > r.now {
            r.now = t;
        }
        let now = r.now;
        r.push(RecKind::ClockAdvance { to: now });
        recompute_inflight(r);
    });
    let timers: Vec<Arc<Shared>> = TIMERS.with(|t| t.borrow().iter().filter_map(|w| w.upgrade()).collect());
    for s in timers {
        // take the queue lock so that a timer task between "check" and "wait" cannot miss the wake-up
        let _g = s.q.lock().unwrap();
        s.cv.notify_all();
    }
}

/// Forget all timers of a finished run (the OS thread goes away anyway).
pub fn reset() {
    TIMERS.with(|t| t.borrow_mut().clear());
    CLOCK.with(|c| *c.borrow_mut() = None);
}
