//! History recorder and simulation state shared by all seams.
//!
//! One simulated run executes on one fresh OS thread (all shuttle tasks are coroutines on it), so the
//! recorder is an OS-thread-local `RefCell`. Writing to it uses no shuttle primitive, draws no random
//! number and reads no clock: logging cannot perturb the schedule.

use std::any::Any;
use std::cell::RefCell;
use std::collections::{BTreeMap, BTreeSet};

/// Plain-data description of an rFSM event (filled in by the harness through `set_describer`).
#[derive(Clone, Debug, Default, PartialEq, Eq)]
pub struct EvDesc {
    pub name: String,
    pub etype: String,
    pub sendid: Option<String>,
    pub origin: Option<String>,
    pub origintype: Option<String>,
    pub invokeid: Option<String>,
    pub params: Option<Vec<(String, String)>>,
    pub content: Option<String>,
}

#[derive(Clone, Debug, PartialEq, Eq)]
pub enum RecKind {
    // ---- transport (mpsc seam)
    ChanCreate { chan: usize },
    Send { chan: usize, ev_id: u64, ev: Option<EvDesc>, ok: bool },
    RecvEnter { chan: usize, queued: i64 },
    Recv { chan: usize, ev_id: u64 },
    // ---- threads / sessions
    Spawn { child: usize, name: String },
    ThreadStart { name: String },
    ThreadEnd,
    SessionStart { session: u32, chan: usize },
    SessionEnd { session: u32 },
    // ---- timers (timer seam)
    TimerSched { timer: usize, item: u64, due: u64, delay: i64 },
    TimerCancel { item: u64, fired: bool },
    TimerFire { item: u64 },
    TimerFireDone { item: u64 },
    TimerDrop { timer: usize, discarded: usize },
    ClockAdvance { to: u64 },
    // ---- tracer (recorded by the harness' Tracer implementation, on the session task)
    Enter { state: u32, name: String },
    Exit { state: u32, name: String },
    Method { name: &'static str, enter: bool },
    IntSend { ev: EvDesc },
    IntRecv { ev: EvDesc },
    ExtRecv { ev: EvDesc },
    Enabled { tids: Vec<u32> },
    /// Real configuration (state ids, in `configuration` order) read from GlobalData under its lock.
    Snapshot { at: &'static str, config: Vec<u32>, to_invoke: Vec<u32>, children: Vec<String>, delayed: Vec<String>, running: bool },
    /// `mark(...)` custom action: evaluated inside executable content, GlobalData locked by the caller.
    Mark { args: Vec<String>, config: Vec<u32> },
    // ---- simulated HTTP transport (http seam; HttpDispatch/HttpHandled are pushed by the network task)
    HttpPost { req: u64, url: String, pairs: Vec<(String, String)>, fate: u8 },
    HttpDispatch { req: u64, copy: u8, path: String },
    HttpHandled { req: u64, copy: u8, status: u16, body: String },
    HttpReply { req: u64, status: Option<u16> },
    // ---- harness driver
    Driver { what: String },
}

#[derive(Clone, Debug)]
pub struct Rec {
    pub seq: u64,
    pub task: usize,
    pub session: u32,
    pub time: u64,
    pub kind: RecKind,
}

#[derive(Default)]
pub struct TimerItem {
    pub id: u64,
    pub timer: usize,
    pub due: u64,
    pub cancelled: bool,
    pub fired: bool,
    pub done: bool,
    pub discarded: bool,
}

pub struct Recorder {
    pub active: bool,
    pub seq: u64,
    pub log: Vec<Rec>,
    pub record_log: bool,
    // simulated clock (ms)
    pub now: u64,
    // ids
    pub next_lock: usize,
    pub next_chan: usize,
    pub next_ev: u64,
    pub next_timer: usize,
    pub next_item: u64,
    // task -> session
    pub task_session: BTreeMap<usize, u32>,
    pub session_task: BTreeMap<u32, usize>,
    pub session_chan: BTreeMap<u32, usize>,
    pub session_global: BTreeMap<u32, Box<dyn Any + Send>>,
    pub sessions_finished: BTreeSet<u32>,
    // quiescence bookkeeping
    pub chan_queued: Vec<i64>,
    /// task currently parked idle in recv on that channel (queued == 0 when it entered)
    pub chan_idle_task: Vec<Option<usize>>,
    pub rfsm_threads_live: usize,
    pub rfsm_threads_idle: usize,
    pub producers_busy: usize,
    pub timers_inflight: usize, // due (<= now), not cancelled, callback not finished
    pub timer_tasks_live: usize,
    /// request copies handed to the simulated network and not handled yet
    pub net_inflight: usize,
    pub timer_items: BTreeMap<u64, TimerItem>,
    pub driver_waiting: bool,
    // lock bookkeeping
    pub held: BTreeMap<usize, Vec<(usize, &'static str)>>,
    pub waiting: BTreeMap<usize, (usize, &'static str)>,
    pub lock_owner: BTreeMap<usize, usize>,
    /// pseudo lock id of a pending `join` -> task id of the joined thread (MAX until it has started)
    pub join_targets: BTreeMap<usize, std::sync::Arc<std::sync::atomic::AtomicUsize>>,
    pub lock_edges: BTreeMap<(&'static str, &'static str), u64>,
    pub lock_ops: u64,
    // counters / probes
    pub counters: BTreeMap<&'static str, u64>,
    pub task_names: BTreeMap<usize, String>,
}

impl Recorder {
    fn new() -> Recorder {
        Recorder {
            active: false,
            seq: 0,
            log: Vec::new(),
            record_log: true,
            now: 0,
            next_lock: 1,
            next_chan: 0,
            next_ev: 1,
            next_timer: 1,
            next_item: 1,
            task_session: BTreeMap::new(),
            session_task: BTreeMap::new(),
            session_chan: BTreeMap::new(),
            session_global: BTreeMap::new(),
            sessions_finished: BTreeSet::new(),
            chan_queued: Vec::new(),
            chan_idle_task: Vec::new(),
            rfsm_threads_live: 0,
            rfsm_threads_idle: 0,
            producers_busy: 0,
            timers_inflight: 0,
            timer_tasks_live: 0,
            net_inflight: 0,
            timer_items: BTreeMap::new(),
            driver_waiting: false,
            held: BTreeMap::new(),
            waiting: BTreeMap::new(),
            lock_owner: BTreeMap::new(),
            join_targets: BTreeMap::new(),
            lock_edges: BTreeMap::new(),
            lock_ops: 0,
            counters: BTreeMap::new(),
            task_names: BTreeMap::new(),
        }
    }

    pub fn quiescent(&self) -> bool {
        self.rfsm_threads_live == self.rfsm_threads_idle && self.producers_busy == 0 && self.timers_inflight == 0 && self.net_inflight == 0
    }

    pub fn bump(&mut self, key: &'static str) {
        *self.counters.entry(key).or_insert(0) += 1;
    }

    pub fn push(&mut self, kind: RecKind) {
        let task = current_task();
        let session = self.task_session.get(&task).copied().unwrap_or(0);
        self.seq += 1;
        if self.record_log {
            let r = Rec { seq: self.seq, task, session, time: self.now, kind };
            self.log.push(r);
        }
    }

    /// Earliest pending (not cancelled, not fired, not discarded) timer item.
    pub fn next_due(&self) -> Option<u64> {
        self.timer_items
            .values()
            .filter(|i| !i.cancelled && !i.fired && !i.discarded)
            .map(|i| i.due)
            .min()
    }
}

thread_local! {
    static CUR_TASK: std::cell::Cell<usize> = const { std::cell::Cell::new(usize::MAX) };
    static REC: RefCell<Recorder> = RefCell::new(Recorder::new());
    static DESCRIBER: RefCell<Option<Describer>> = const { RefCell::new(None) };
}

/// The task chosen by the scheduler at the last scheduling point is the running task. The simulator's
/// scheduler reports it here, so that recording never calls into shuttle (safe in panic hooks too).
pub fn set_current_task(t: usize) {
    CUR_TASK.with(|c| c.set(t));
}

pub fn current_task() -> usize {
    CUR_TASK.with(|c| c.get())
}

pub fn with<R>(f: impl FnOnce(&mut Recorder) -> R) -> R {
    REC.with(|r| f(&mut r.borrow_mut()))
}

pub fn try_with<R>(f: impl FnOnce(&mut Recorder) -> R) -> Option<R> {
    REC.with(|r| r.try_borrow_mut().ok().map(|mut g| f(&mut g)))
}

pub fn push(kind: RecKind) {
    with(|r| r.push(kind));
}

pub fn bump(key: &'static str) {
    with(|r| r.bump(key));
}

/// Start a fresh recorder for a new run (called on the run's OS thread before the shuttle execution).
pub fn reset(record_log: bool) {
    REC.with(|r| {
        let mut n = Recorder::new();
        n.active = true;
        n.record_log = record_log;
        *r.borrow_mut() = n;
    });
}

/// Take the recorder out (after the execution, or from a panic hook on the same OS thread).
pub fn take() -> Recorder {
    REC.with(|r| std::mem::replace(&mut *r.borrow_mut(), Recorder::new()))
}

/// (type name of the message, pointer to it) -> description
pub type Describer = Box<dyn Fn(&'static str, *const ()) -> Option<EvDesc>>;

pub fn set_describer(f: Describer) {
    DESCRIBER.with(|d| *d.borrow_mut() = Some(f));
}

pub fn describe(type_name: &'static str, v: *const ()) -> Option<EvDesc> {
    DESCRIBER.with(|d| match &*d.borrow() {
        Some(f) => f(type_name, v),
        None => None,
    })
}

pub fn session_of_current_task() -> u32 {
    let t = current_task();
    with(|r| r.task_session.get(&t).copied().unwrap_or(0))
}

/// What every task holds / waits for: (task, name, held [(lock id, class)], wanted (lock id, class, owner task)).
#[allow(clippy::type_complexity)]
pub fn lock_state() -> Vec<(usize, String, Vec<(usize, &'static str)>, Option<(usize, &'static str, Option<usize>)>)> {
    with(|r| {
        let mut tasks: BTreeSet<usize> = r.held.keys().copied().collect();
        tasks.extend(r.waiting.keys().copied());
        tasks
            .into_iter()
            .filter_map(|t| {
                let held: Vec<(usize, &'static str)> = r.held.get(&t).cloned().unwrap_or_default();
                let w = r.waiting.get(&t).map(|x| {
                    let owner = r.lock_owner.get(&x.0).copied().or_else(|| {
                        r.join_targets.get(&x.0).map(|a| a.load(std::sync::atomic::Ordering::SeqCst)).filter(|t| *t != usize::MAX)
                    });
                    (x.0, x.1, owner)
                });
                if held.is_empty() && w.is_none() {
                    None
                } else {
                    Some((t, r.task_names.get(&t).cloned().unwrap_or_default(), held, w))
                }
            })
            .collect()
    })
}
