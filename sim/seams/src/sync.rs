//! Replacement for the parts of `std::sync` rFSM uses. Every lock, unlock, send, receive and atomic
//! operation is a shuttle scheduling point; the wrappers add lock-class bookkeeping and the transport
//! recorder.

pub use shuttle::sync::atomic;
pub use std::sync::{Arc, LockResult, PoisonError, TryLockError, TryLockResult, Weak};

use crate::rec;
use std::fmt;
use std::ops::{Deref, DerefMut};

fn classify(type_name: &'static str) -> &'static str {
    // Order matters: GlobalData contains many other type names.
    if type_name.contains("fsm::GlobalData") {
        "G"
    } else if type_name.contains("ExecutorState") {
        "E"
    } else if type_name.contains("EventIOProcessor") {
        "P"
    } else if type_name.contains("Receiver") {
        "Rx"
    } else if type_name.contains("DatamodelFactory") {
        "F"
    } else if type_name.contains("datamodel::Data") {
        "V"
    } else if type_name.contains("dyn ") && type_name.contains("Action") {
        "A"
    } else if type_name.contains("DatamodelFactory") {
        "F"
    } else if type_name.contains("TracerFactory") {
        "T"
    } else {
        "other"
    }
}

pub struct Mutex<T: ?Sized> {
    id: usize,
    class: &'static str,
    inner: shuttle::sync::Mutex<T>,
}

pub struct MutexGuard<'a, T: ?Sized + 'a> {
    id: usize,
    inner: Option<shuttle::sync::MutexGuard<'a, T>>,
}

impl<T> Mutex<T> {
    pub fn new(value: T) -> Mutex<T> {
        let id = rec::with(|r| {
            let i = r.next_lock;
            r.next_lock += 1;
            i
        });
        Mutex { id, class: classify(std::any::type_name::<T>()), inner: shuttle::sync::Mutex::new(value) }
    }

    pub fn into_inner(self) -> LockResult<T> {
        self.inner.into_inner()
    }
}

impl<T> From<T> for Mutex<T> {
    fn from(value: T) -> Self {
        Mutex::new(value)
    }
}

impl<T: Default> Default for Mutex<T> {
    fn default() -> Self {
        Mutex::new(T::default())
    }
}

impl<T: ?Sized> Mutex<T> {
    pub fn lock_class(&self) -> &'static str {
        self.class
    }

    fn acquired(&self) {
        let t = rec::current_task();
        let (id, class) = (self.id, self.class);
        rec::with(|r| {
            r.waiting.remove(&t);
            r.lock_owner.insert(id, t);
            r.held.entry(t).or_default().push((id, class));
        });
    }

    pub fn lock(&self) -> LockResult<MutexGuard<'_, T>> {
        let t = rec::current_task();
        let (id, class) = (self.id, self.class);
        rec::with(|r| {
            r.lock_ops += 1;
            if let Some(o) = r.lock_owner.get(&id) {
                if *o != t {
                    r.bump("lock_contended");
                }
            }
            if let Some(h) = r.held.get(&t) {
                let edges: Vec<&'static str> = h.iter().map(|x| x.1).collect();
                for e in edges {
                    *r.lock_edges.entry((e, class)).or_insert(0) += 1;
                }
            }
            r.waiting.insert(t, (id, class));
        });
        match self.inner.lock() {
            Ok(g) => {
                self.acquired();
                Ok(MutexGuard { id, inner: Some(g) })
            }
            Err(p) => {
                self.acquired();
                Err(PoisonError::new(MutexGuard { id, inner: Some(p.into_inner()) }))
            }
        }
    }

    pub fn try_lock(&self) -> TryLockResult<MutexGuard<'_, T>> {
        let id = self.id;
        match self.inner.try_lock() {
            Ok(g) => {
                self.acquired();
                Ok(MutexGuard { id, inner: Some(g) })
            }
            Err(TryLockError::WouldBlock) => Err(TryLockError::WouldBlock),
            Err(TryLockError::Poisoned(p)) => {
                self.acquired();
                Err(TryLockError::Poisoned(PoisonError::new(MutexGuard { id, inner: Some(p.into_inner()) })))
            }
        }
    }
}

impl<T: ?Sized + fmt::Debug> fmt::Debug for Mutex<T> {
    fn fmt(&self, f: &mut fmt::Formatter<'_>) -> fmt::Result {
        write!(f, "Mutex#{}[{}]", self.id, self.class)
    }
}

impl<'a, T: ?Sized> Drop for MutexGuard<'a, T> {
    fn drop(&mut self) {
        let t = rec::current_task();
        let id = self.id;
        rec::with(|r| {
            r.lock_owner.remove(&id);
            if let Some(h) = r.held.get_mut(&t) {
                if let Some(pos) = h.iter().rposition(|x| x.0 == id) {
                    h.remove(pos);
                }
            }
        });
        // the inner guard is released here: a scheduling point
        self.inner.take();
    }
}

impl<'a, T: ?Sized> Deref for MutexGuard<'a, T> {
    type Target = T;
    fn deref(&self) -> &T {
        self.inner.as_ref().unwrap().deref()
    }
}

impl<'a, T: ?Sized> DerefMut for MutexGuard<'a, T> {
    fn deref_mut(&mut self) -> &mut T {
        self.inner.as_mut().unwrap().deref_mut()
    }
}

impl<'a, T: ?Sized + fmt::Debug> fmt::Debug for MutexGuard<'a, T> {
    fn fmt(&self, f: &mut fmt::Formatter<'_>) -> fmt::Result {
        fmt::Debug::fmt(&**self, f)
    }
}

impl<'a, T: ?Sized + fmt::Display> fmt::Display for MutexGuard<'a, T> {
    fn fmt(&self, f: &mut fmt::Formatter<'_>) -> fmt::Result {
        fmt::Display::fmt(&**self, f)
    }
}

pub mod mpsc {
    //! Channel seam. The inner shuttle channel carries `(ev_id, T)` so that message identity does not
    //! depend on addresses or content.
    use crate::rec::{self, RecKind};
    use std::fmt;
    pub use std::sync::mpsc::{RecvError, RecvTimeoutError, SendError, TryRecvError};

    pub struct Sender<T> {
        chan: usize,
        inner: shuttle::sync::mpsc::Sender<(u64, T)>,
    }

    pub struct Receiver<T> {
        chan: usize,
        inner: shuttle::sync::mpsc::Receiver<(u64, T)>,
    }

    pub fn channel<T>() -> (Sender<T>, Receiver<T>) {
        let chan = rec::with(|r| {
            let c = r.next_chan;
            r.next_chan += 1;
            r.chan_queued.push(0);
            r.chan_idle_task.push(None);
            r.push(RecKind::ChanCreate { chan: c });
            c
        });
        let (s, r) = shuttle::sync::mpsc::channel();
        (Sender { chan, inner: s }, Receiver { chan, inner: r })
    }

    impl<T> Clone for Sender<T> {
        fn clone(&self) -> Self {
            Sender { chan: self.chan, inner: self.inner.clone() }
        }
    }

    impl<T> fmt::Debug for Sender<T> {
        fn fmt(&self, f: &mut fmt::Formatter<'_>) -> fmt::Result {
            write!(f, "Sender#{}", self.chan)
        }
    }

    impl<T> fmt::Debug for Receiver<T> {
        fn fmt(&self, f: &mut fmt::Formatter<'_>) -> fmt::Result {
            write!(f, "Receiver#{}", self.chan)
        }
    }

    impl<T> Sender<T> {
        pub fn chan_id(&self) -> usize {
            self.chan
        }

        pub fn send(&self, t: T) -> Result<(), SendError<T>> {
            let chan = self.chan;
            // T carries no 'static bound in rFSM's generic BlockingQueue<T>; the describer checks the
            // type name before it reinterprets the pointer.
            let desc = rec::describe(std::any::type_name::<T>(), &t as *const T as *const ());
            let ev_id = rec::with(|r| {
                let id = r.next_ev;
                r.next_ev += 1;
                r.chan_queued[chan] += 1;
                // a receiver parked idle on this channel is no longer idle
                if r.chan_idle_task[chan].take().is_some() {
                    r.rfsm_threads_idle -= 1;
                }
                r.push(RecKind::Send { chan, ev_id: id, ev: desc, ok: true });
                id
            });
            match self.inner.send((ev_id, t)) {
                Ok(()) => Ok(()),
                Err(SendError((_, t))) => {
                    rec::with(|r| {
                        r.chan_queued[chan] -= 1;
                        // mark the record as failed
                        if let Some(rec) = r.log.iter_mut().rev().find(|x| matches!(&x.kind, RecKind::Send{ev_id: e, ..} if *e == ev_id)) {
                            if let RecKind::Send { ok, .. } = &mut rec.kind {
                                *ok = false;
                            }
                        }
                    });
                    Err(SendError(t))
                }
            }
        }
    }

    impl<T> Receiver<T> {
        pub fn chan_id(&self) -> usize {
            self.chan
        }

        pub fn try_recv(&self) -> Result<T, TryRecvError> {
            let chan = self.chan;
            match self.inner.try_recv() {
                Ok((ev_id, t)) => {
                    rec::with(|r| {
                        r.chan_queued[chan] -= 1;
                        r.push(RecKind::Recv { chan, ev_id });
                    });
                    Ok(t)
                }
                Err(e) => Err(e),
            }
        }

        /// Simulated time does not advance while a task waits: a timed receive on an empty channel
        /// reports a timeout immediately.
        pub fn recv_timeout(&self, _d: std::time::Duration) -> Result<T, RecvTimeoutError> {
            match self.try_recv() {
                Ok(t) => Ok(t),
                Err(TryRecvError::Empty) => {
                    shuttle::thread::yield_now();
                    Err(RecvTimeoutError::Timeout)
                }
                Err(TryRecvError::Disconnected) => Err(RecvTimeoutError::Disconnected),
            }
        }

        pub fn recv(&self) -> Result<T, RecvError> {
            let chan = self.chan;
            let task = rec::current_task();
            let idle = rec::with(|r| {
                let q = r.chan_queued[chan];
                r.push(RecKind::RecvEnter { chan, queued: q });
                if q == 0 && r.task_session.contains_key(&task) {
                    r.chan_idle_task[chan] = Some(task);
                    r.rfsm_threads_idle += 1;
                    true
                } else {
                    false
                }
            });
            if idle {
                crate::driver::maybe_notify();
            }
            match self.inner.recv() {
                Ok((ev_id, t)) => {
                    rec::with(|r| {
                        r.chan_queued[chan] -= 1;
                        if r.chan_idle_task[chan] == Some(task) {
                            // sender did not clear it (cannot happen, defensive)
                            r.chan_idle_task[chan] = None;
                            r.rfsm_threads_idle -= 1;
                        }
                        r.push(RecKind::Recv { chan, ev_id });
                    });
                    Ok(t)
                }
                Err(e) => {
                    rec::with(|r| {
                        if r.chan_idle_task[chan] == Some(task) {
                            r.chan_idle_task[chan] = None;
                            r.rfsm_threads_idle -= 1;
                        }
                    });
                    Err(e)
                }
            }
        }
    }
}
