//! Quiescence protocol between the rFSM tasks and the simulation driver (shuttle main task).

use crate::rec;
use shuttle::sync::{Condvar, Mutex};
use std::cell::RefCell;
use std::sync::Arc;

struct Pair {
    m: Mutex<()>,
    cv: Condvar,
}

thread_local! {
    static DRIVER: RefCell<Option<Arc<Pair>>> = const { RefCell::new(None) };
}

/// Must be called by the driver at the start of every execution (inside shuttle).
pub fn init() {
    DRIVER.with(|d| *d.borrow_mut() = Some(Arc::new(Pair { m: Mutex::new(()), cv: Condvar::new() })));
}

pub fn fini() {
    DRIVER.with(|d| *d.borrow_mut() = None);
}

fn pair() -> Option<Arc<Pair>> {
    DRIVER.with(|d| d.borrow().clone())
}

/// Called by seams after a state change that may have made the system quiescent.
pub fn maybe_notify() {
    let wake = rec::with(|r| r.driver_waiting && r.quiescent());
    if wake {
        if let Some(p) = pair() {
            let _g = p.m.lock().unwrap();
            p.cv.notify_all();
        }
    }
}

/// Wake the driver if it is waiting (whatever it waits for).
pub fn notify_if_waiting() {
    if rec::with(|r| r.driver_waiting) {
        notify();
    }
}

/// Unconditional wake-up (used by producer tasks when they finish a phase).
pub fn notify() {
    if let Some(p) = pair() {
        let _g = p.m.lock().unwrap();
        p.cv.notify_all();
    }
}

/// Block the driver until every live rFSM thread is idle in `recv` on an empty channel, no producer
/// is busy and no timer callback is due or running.
pub fn wait_quiescent() {
    let p = pair().expect("driver::init not called");
    let mut g = p.m.lock().unwrap();
    loop {
        let q = rec::with(|r| {
            let q = r.quiescent();
            r.driver_waiting = !q;
            q
        });
        if q {
            break;
        }
        g = p.cv.wait(g).unwrap();
    }
    drop(g);
}

/// Block the driver until `pred` holds (re-evaluated at every wake-up).
pub fn wait_until(mut pred: impl FnMut() -> bool) {
    let p = pair().expect("driver::init not called");
    let mut g = p.m.lock().unwrap();
    loop {
        if pred() {
            rec::with(|r| r.driver_waiting = false);
            break;
        }
        rec::with(|r| r.driver_waiting = true);
        g = p.cv.wait(g).unwrap();
    }
    drop(g);
}

pub fn producer_begin() {
    rec::with(|r| r.producers_busy += 1);
}

pub fn producer_end() {
    rec::with(|r| r.producers_busy -= 1);
    maybe_notify();
}
