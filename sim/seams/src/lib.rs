//! Simulation seams for rFSM (compiled into rFSM only with `--cfg rfsm_verif`).
//!
//! * `sync`, `thread`: replacements for the `std::sync` / `std::thread` items rFSM uses, on shuttle.
//! * `timer`: simulated replacement of the `timer` crate, driven by the simulated clock.
//! * `http`: simulated transport for the BasicHTTP processor (stub for the TCP listener and `ureq`).
//! * `probe`: session start / end hooks.
//! * `collections`: `HashMap` / `HashSet` with a per-run seeded hasher.
//! * `rec`: OS-thread-local history recorder and simulation bookkeeping.
//! * `driver`: quiescence protocol used by the simulation driver.

pub mod collections;
pub mod driver;
pub mod http;
pub mod probe;
pub mod rec;
pub mod sync;
pub mod thread;
pub mod timer;

pub use shuttle::lazy_static;
