//! Simulated HTTP transport (stands in for the TCP listener of rocket and for `ureq`).
//!
//! rFSM's BasicHTTP processor hands its ignited (not launched) server to `launch`; the harness takes
//! it with `take_server` and serves requests from one simulated "network" task through rocket's
//! in-process dispatch, so request parsing, routing, form decoding and the handler are the real code.
//! `post_form` is what `ureq::post(..).send_form(..)` is replaced by: it encodes the pairs exactly as
//! ureq does (`form_urlencoded::Serializer`), applies the fault this request was dealt by the per-run
//! plan (connection failure, duplicated request, lost response) and blocks the caller until the
//! response arrives, like the blocking ureq call.

use crate::driver;
use crate::rec::{self, RecKind};
use shuttle::sync::mpsc;
use std::any::Any;
use std::cell::RefCell;
use std::fmt;

pub const FATE_DELIVER: u8 = 0;
/// connection fails, nothing reaches the server, the caller gets an error
pub const FATE_DROP_REQUEST: u8 = 1;
/// the request reaches the server twice (retransmission); the caller sees the first response
pub const FATE_DUPLICATE: u8 = 2;
/// the request is handled, the response is lost: the caller gets an error
pub const FATE_DROP_RESPONSE: u8 = 3;

#[derive(Debug)]
pub enum HttpError {
    Transport(String),
    Status(u16, String),
}

impl fmt::Display for HttpError {
    fn fmt(&self, f: &mut fmt::Formatter<'_>) -> fmt::Result {
        match self {
            HttpError::Transport(m) => write!(f, "transport error: {}", m),
            HttpError::Status(c, m) => write!(f, "status code {}: {}", c, m),
        }
    }
}

pub struct Response {
    pub status: u16,
    pub body: String,
}

pub struct Request {
    pub req: u64,
    pub url: String,
    pub body: String,
    pub fate: u8,
    /// None for the second copy of a duplicated request
    pub reply: Option<mpsc::Sender<Option<(u16, String)>>>,
}

struct Net {
    server: Option<Box<dyn Any + Send>>,
    tx: Option<mpsc::Sender<Request>>,
    plan: Vec<u8>,
    next_req: u64,
}

thread_local! {
    static NET: RefCell<Net> = const { RefCell::new(Net { server: None, tx: None, plan: Vec::new(), next_req: 0 }) };
}

/// Start of a run: forget everything, install the fault plan (request k gets `plan[k % len]`).
pub fn reset(plan: Vec<u8>) {
    NET.with(|n| {
        let mut n = n.borrow_mut();
        n.server = None;
        n.tx = None;
        n.plan = plan;
        n.next_req = 0;
    });
}

/// Called by rFSM instead of `tokio::spawn(server.launch())`.
pub fn launch(server: Box<dyn Any + Send>) {
    rec::bump("http_launch");
    NET.with(|n| n.borrow_mut().server = Some(server));
}

pub fn take_server() -> Option<Box<dyn Any + Send>> {
    NET.with(|n| n.borrow_mut().server.take())
}

/// The network task's end of the wire.
pub fn open_wire() -> mpsc::Receiver<Request> {
    let (tx, rx) = mpsc::channel();
    NET.with(|n| n.borrow_mut().tx = Some(tx));
    rx
}

/// No further request can be sent (the network task ends when the wire is drained).
pub fn close_wire() {
    NET.with(|n| n.borrow_mut().tx = None);
}

pub fn encode(pairs: &[(&str, &str)]) -> String {
    form_urlencoded::Serializer::new(String::new()).extend_pairs(pairs).finish()
}

/// Blocking POST of an url-encoded form, used by rFSM (`send`) and by the simulated external clients.
pub fn post_form(target: &str, pairs: &[(&str, &str)]) -> Result<Response, HttpError> {
    post_raw(target, encode(pairs), pairs.iter().map(|(a, b)| (a.to_string(), b.to_string())).collect())
}

pub fn post_raw(target: &str, body: String, pairs: Vec<(String, String)>) -> Result<Response, HttpError> {
    let (req, fate, tx) = NET.with(|n| {
        let mut n = n.borrow_mut();
        let req = n.next_req;
        n.next_req += 1;
        let fate = if n.plan.is_empty() { FATE_DELIVER } else { n.plan[(req as usize) % n.plan.len()] };
        (req, fate, n.tx.clone())
    });
    rec::push(RecKind::HttpPost { req, url: target.to_string(), pairs, fate });
    let tx = match tx {
        Some(tx) if fate != FATE_DROP_REQUEST => tx,
        _ => {
            rec::bump(if fate == FATE_DROP_REQUEST { "http_fault_drop_request" } else { "http_no_wire" });
            rec::push(RecKind::HttpReply { req, status: None });
            return Err(HttpError::Transport("connection refused".to_string()));
        }
    };
    let (rtx, rrx) = mpsc::channel();
    let copies = if fate == FATE_DUPLICATE { 2 } else { 1 };
    rec::with(|r| r.net_inflight += copies);
    let _ = tx.send(Request { req, url: target.to_string(), body: body.clone(), fate, reply: Some(rtx) });
    if fate == FATE_DUPLICATE {
        rec::bump("http_fault_duplicate");
        let _ = tx.send(Request { req, url: target.to_string(), body, fate, reply: None });
    }
    drop(tx);
    let answer = rrx.recv().ok().flatten();
    match answer {
        None => {
            rec::push(RecKind::HttpReply { req, status: None });
            Err(HttpError::Transport("connection reset".to_string()))
        }
        Some((status, body)) => {
            rec::push(RecKind::HttpReply { req, status: Some(status) });
            if status >= 400 {
                Err(HttpError::Status(status, body))
            } else {
                Ok(Response { status, body })
            }
        }
    }
}

/// Network task: one copy of a request has been handled.
pub fn handled() {
    rec::with(|r| r.net_inflight -= 1);
    driver::maybe_notify();
}
