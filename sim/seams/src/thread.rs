//! Replacement for the parts of `std::thread` rFSM uses. Threads spawned through this module are
//! counted as "rFSM threads" for the quiescence protocol.

use crate::rec::{self, RecKind};
pub use shuttle::thread::{current, yield_now, JoinHandle, Thread, ThreadId};

pub struct Builder {
    name: Option<String>,
}

impl Builder {
    #[allow(clippy::new_without_default)]
    pub fn new() -> Builder {
        Builder { name: None }
    }

    pub fn name(mut self, name: String) -> Builder {
        self.name = Some(name);
        self
    }

    pub fn spawn<F, T>(self, f: F) -> std::io::Result<JoinHandle<T>>
    where
        F: FnOnce() -> T + Send + 'static,
        T: Send + 'static,
    {
        let name = self.name.clone().unwrap_or_default();
        rec::with(|r| {
            r.rfsm_threads_live += 1;
        });
        let n2 = name.clone();
        let mut b = shuttle::thread::Builder::new();
        if let Some(n) = self.name {
            b = b.name(n);
        }
        let h = b.spawn(move || {
            let me = rec::current_task();
            rec::with(|r| {
                r.task_names.insert(me, n2.clone());
                r.push(RecKind::ThreadStart { name: n2 });
            });
            let guard = LiveGuard;
            let v = f();
            drop(guard);
            v
        })?;
        Ok(h)
    }
}

pub fn spawn<F, T>(f: F) -> JoinHandle<T>
where
    F: FnOnce() -> T + Send + 'static,
    T: Send + 'static,
{
    Builder::new().spawn(f).unwrap()
}

/// Decrements the live-thread count when the rFSM thread ends (also on unwind).
struct LiveGuard;

impl Drop for LiveGuard {
    fn drop(&mut self) {
        rec::with(|r| {
            r.rfsm_threads_live -= 1;
            r.push(RecKind::ThreadEnd);
        });
        if !std::thread::panicking() {
            crate::driver::notify_if_waiting();
        }
    }
}
