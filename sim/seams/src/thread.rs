//! Replacement for the parts of `std::thread` rFSM uses. Threads spawned through this module are
//! counted as "rFSM threads" for the quiescence protocol.

use crate::rec::{self, RecKind};
pub use shuttle::thread::{current, yield_now, Thread, ThreadId};
use std::sync::atomic::{AtomicUsize, Ordering};
use std::sync::Arc;

/// `std::thread::JoinHandle` stand-in: a `join` is recorded like a lock wait (class "join", owned by the
/// joined task), so that wait-for cycles through a join show up in deadlock reports.
pub struct JoinHandle<T> {
    inner: shuttle::thread::JoinHandle<T>,
    target: Arc<AtomicUsize>,
}

impl<T> JoinHandle<T> {
    pub fn join(self) -> std::thread::Result<T> {
        let me = rec::current_task();
        let id = usize::MAX / 2 + me;
        let target = self.target.clone();
        rec::with(|r| {
            r.waiting.insert(me, (id, "join"));
            r.join_targets.insert(id, target);
        });
        let res = self.inner.join();
        rec::with(|r| {
            r.waiting.remove(&me);
            r.join_targets.remove(&id);
        });
        res
    }

    pub fn thread(&self) -> &Thread {
        self.inner.thread()
    }
}

pub struct Builder {
    name: Option<String>,
}

impl Builder {
    #[allow(clippy::new_without_default)]
    pub fn new() -> Builder {
        Builder { name: None }
    }

    pub fn name(mut self, name: String) -> Builder {
        self.name = Some(name);
        self
    }

    pub fn spawn<F, T>(self, f: F) -> std::io::Result<JoinHandle<T>>
    where
        F: FnOnce() -> T + Send + 'static,
        T: Send + 'static,
    {
        let name = self.name.clone().unwrap_or_default();
        rec::with(|r| {
            r.rfsm_threads_live += 1;
        });
        let n2 = name.clone();
        let target = Arc::new(AtomicUsize::new(usize::MAX));
        let t2 = target.clone();
        let mut b = shuttle::thread::Builder::new();
        if let Some(n) = self.name {
            b = b.name(n);
        }
        let h = b.spawn(move || {
            let me = rec::current_task();
            t2.store(me, Ordering::SeqCst);
            rec::with(|r| {
                r.task_names.insert(me, n2.clone());
                r.push(RecKind::ThreadStart { name: n2 });
            });
            let guard = LiveGuard;
            let v = f();
            drop(guard);
            v
        })?;
        Ok(JoinHandle { inner: h, target })
    }
}

pub fn spawn<F, T>(f: F) -> JoinHandle<T>
where
    F: FnOnce() -> T + Send + 'static,
    T: Send + 'static,
{
    Builder::new().spawn(f).unwrap()
}

/// Decrements the live-thread count when the rFSM thread ends (also on unwind).
struct LiveGuard;

impl Drop for LiveGuard {
    fn drop(&mut self) {
        rec::with(|r| {
            r.rfsm_threads_live -= 1;
            r.push(RecKind::ThreadEnd);
        });
        if !std::thread::panicking() {
            crate::driver::notify_if_waiting();
        }
    }
}
