//! H3: session thread start / end probes called from rFSM (cfg rfsm_verif only).

use crate::rec::{self, RecKind};
use std::any::Any;

type StartHook = std::rc::Rc<dyn Fn(u32, &dyn Any) -> (usize, Box<dyn Any + Send>)>;

thread_local! {
    static START_HOOK: std::cell::RefCell<Option<StartHook>> = const { std::cell::RefCell::new(None) };
}

/// The harness knows rFSM's types; it turns the `&GlobalDataArc` into (channel id, cloned arc).
pub fn set_start_hook(h: StartHook) {
    START_HOOK.with(|s| *s.borrow_mut() = Some(h));
}

pub fn session_thread_started(session_id: u32, global: &dyn Any) {
    let task = rec::current_task();
    // clone the hook out before calling it: it locks GlobalData (a scheduling point)
    let hook = START_HOOK.with(|s| s.borrow().clone());
    let res = hook.as_ref().map(|h| h(session_id, global));
    rec::with(|r| {
        r.task_session.insert(task, session_id);
        r.session_task.insert(session_id, task);
        let mut chan = usize::MAX;
        if let Some((c, g)) = res {
            chan = c;
            r.session_chan.insert(session_id, c);
            r.session_global.insert(session_id, g);
        }
        r.push(RecKind::SessionStart { session: session_id, chan });
    });
}

pub fn session_thread_finished(session_id: u32) {
    rec::with(|r| {
        r.sessions_finished.insert(session_id);
        r.push(RecKind::SessionEnd { session: session_id });
    });
}
