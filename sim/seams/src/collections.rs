//! `HashMap` / `HashSet` with a hasher whose keys are a pure function of the run's hash seed:
//! iteration order is varied per run and identical on replay (std's `RandomState` draws per-thread
//! keys from the OS and cannot be re-seeded on a long-lived thread).

use std::borrow::Borrow;
use std::cell::Cell;
use std::fmt;
use std::hash::{BuildHasher, Hash};
use std::ops::{Deref, DerefMut, Index};

thread_local! {
    static KEYS: Cell<(u64, u64)> = const { Cell::new((0x0123_4567_89ab_cdef, 0xfedc_ba98_7654_3210)) };
}

/// Called at the start of every simulated run.
pub fn seed(s: u64) {
    let a = s ^ 0x9E37_79B9_7F4A_7C15;
    let mut z = a;
    z = (z ^ (z >> 30)).wrapping_mul(0xBF58_476D_1CE4_E5B9);
    z = (z ^ (z >> 27)).wrapping_mul(0x94D0_49BB_1331_11EB);
    KEYS.with(|k| k.set((z ^ (z >> 31), a.rotate_left(17) ^ 0x5bd1_e995)));
}

#[derive(Clone, Copy, Debug)]
pub struct SeededState {
    k0: u64,
    k1: u64,
}

impl SeededState {
    pub fn new() -> SeededState {
        KEYS.with(|k| {
            let (k0, k1) = k.get();
            k.set((k0.wrapping_add(1), k1));
            SeededState { k0, k1 }
        })
    }
}

impl Default for SeededState {
    fn default() -> Self {
        SeededState::new()
    }
}

impl BuildHasher for SeededState {
    #[allow(deprecated)]
    type Hasher = std::hash::SipHasher;
    #[allow(deprecated)]
    fn build_hasher(&self) -> std::hash::SipHasher {
        std::hash::SipHasher::new_with_keys(self.k0, self.k1)
    }
}

type Inner<K, V> = std::collections::HashMap<K, V, SeededState>;

pub struct HashMap<K, V>(pub Inner<K, V>);

impl<K, V> HashMap<K, V> {
    pub fn new() -> Self {
        HashMap(Inner::with_hasher(SeededState::new()))
    }
    pub fn with_capacity(n: usize) -> Self {
        HashMap(Inner::with_capacity_and_hasher(n, SeededState::new()))
    }
    pub fn into_keys(self) -> std::collections::hash_map::IntoKeys<K, V> {
        self.0.into_keys()
    }
    pub fn into_values(self) -> std::collections::hash_map::IntoValues<K, V> {
        self.0.into_values()
    }
}

impl<K, V> Default for HashMap<K, V> {
    fn default() -> Self {
        HashMap::new()
    }
}

impl<K, V> Deref for HashMap<K, V> {
    type Target = Inner<K, V>;
    fn deref(&self) -> &Inner<K, V> {
        &self.0
    }
}

impl<K, V> DerefMut for HashMap<K, V> {
    fn deref_mut(&mut self) -> &mut Inner<K, V> {
        &mut self.0
    }
}

impl<K: Clone, V: Clone> Clone for HashMap<K, V> {
    fn clone(&self) -> Self {
        HashMap(self.0.clone())
    }
}

impl<K: fmt::Debug, V: fmt::Debug> fmt::Debug for HashMap<K, V> {
    fn fmt(&self, f: &mut fmt::Formatter<'_>) -> fmt::Result {
        self.0.fmt(f)
    }
}

impl<K: Eq + Hash, V: PartialEq> PartialEq for HashMap<K, V> {
    fn eq(&self, other: &Self) -> bool {
        self.0 == other.0
    }
}

impl<K: Eq + Hash, V: Eq> Eq for HashMap<K, V> {}

impl<K, V> IntoIterator for HashMap<K, V> {
    type Item = (K, V);
    type IntoIter = std::collections::hash_map::IntoIter<K, V>;
    fn into_iter(self) -> Self::IntoIter {
        self.0.into_iter()
    }
}

impl<'a, K, V> IntoIterator for &'a HashMap<K, V> {
    type Item = (&'a K, &'a V);
    type IntoIter = std::collections::hash_map::Iter<'a, K, V>;
    fn into_iter(self) -> Self::IntoIter {
        self.0.iter()
    }
}

impl<'a, K, V> IntoIterator for &'a mut HashMap<K, V> {
    type Item = (&'a K, &'a mut V);
    type IntoIter = std::collections::hash_map::IterMut<'a, K, V>;
    fn into_iter(self) -> Self::IntoIter {
        self.0.iter_mut()
    }
}

impl<K: Eq + Hash, V> FromIterator<(K, V)> for HashMap<K, V> {
    fn from_iter<T: IntoIterator<Item = (K, V)>>(iter: T) -> Self {
        let mut m = HashMap::new();
        m.0.extend(iter);
        m
    }
}

impl<K: Eq + Hash, V> Extend<(K, V)> for HashMap<K, V> {
    fn extend<T: IntoIterator<Item = (K, V)>>(&mut self, iter: T) {
        self.0.extend(iter)
    }
}

impl<K: Eq + Hash, V, const N: usize> From<[(K, V); N]> for HashMap<K, V> {
    fn from(arr: [(K, V); N]) -> Self {
        arr.into_iter().collect()
    }
}

impl<K, Q: ?Sized, V> Index<&Q> for HashMap<K, V>
where
    K: Eq + Hash + Borrow<Q>,
    Q: Eq + Hash,
{
    type Output = V;
    fn index(&self, key: &Q) -> &V {
        self.0.get(key).expect("no entry found for key")
    }
}

type InnerSet<T> = std::collections::HashSet<T, SeededState>;

pub struct HashSet<T>(pub InnerSet<T>);

impl<T> HashSet<T> {
    pub fn new() -> Self {
        HashSet(InnerSet::with_hasher(SeededState::new()))
    }
    pub fn with_capacity(n: usize) -> Self {
        HashSet(InnerSet::with_capacity_and_hasher(n, SeededState::new()))
    }
}

impl<T> Default for HashSet<T> {
    fn default() -> Self {
        HashSet::new()
    }
}

impl<T> Deref for HashSet<T> {
    type Target = InnerSet<T>;
    fn deref(&self) -> &InnerSet<T> {
        &self.0
    }
}

impl<T> DerefMut for HashSet<T> {
    fn deref_mut(&mut self) -> &mut InnerSet<T> {
        &mut self.0
    }
}

impl<T: Clone> Clone for HashSet<T> {
    fn clone(&self) -> Self {
        HashSet(self.0.clone())
    }
}

impl<T: fmt::Debug> fmt::Debug for HashSet<T> {
    fn fmt(&self, f: &mut fmt::Formatter<'_>) -> fmt::Result {
        self.0.fmt(f)
    }
}

impl<T: Eq + Hash> PartialEq for HashSet<T> {
    fn eq(&self, other: &Self) -> bool {
        self.0 == other.0
    }
}

impl<T: Eq + Hash> Eq for HashSet<T> {}

impl<T> IntoIterator for HashSet<T> {
    type Item = T;
    type IntoIter = std::collections::hash_set::IntoIter<T>;
    fn into_iter(self) -> Self::IntoIter {
        self.0.into_iter()
    }
}

impl<'a, T> IntoIterator for &'a HashSet<T> {
    type Item = &'a T;
    type IntoIter = std::collections::hash_set::Iter<'a, T>;
    fn into_iter(self) -> Self::IntoIter {
        self.0.iter()
    }
}

impl<T: Eq + Hash> FromIterator<T> for HashSet<T> {
    fn from_iter<I: IntoIterator<Item = T>>(iter: I) -> Self {
        let mut s = HashSet::new();
        s.0.extend(iter);
        s
    }
}

impl<T: Eq + Hash> Extend<T> for HashSet<T> {
    fn extend<I: IntoIterator<Item = T>>(&mut self, iter: I) {
        self.0.extend(iter)
    }
}

pub mod hash_map {
    pub use std::collections::hash_map::Entry;
}

/// Deterministic stand-in for the iteration order of a std `HashMap` that rFSM receives from a
/// dependency (rocket's decoded form): the entries in an order that is a pure function of the run's
/// hash seed and the keys. Different runs see different orders, one run always the same.
pub fn seeded_order<K: Ord + std::hash::Hash, V>(m: std::collections::HashMap<K, V>) -> Vec<(K, V)> {
    use std::hash::BuildHasher;
    let st = SeededState::default();
    let mut v: Vec<(u64, K, V)> = m.into_iter().map(|(k, val)| (st.hash_one(&k), k, val)).collect();
    v.sort_by(|a, b| a.0.cmp(&b.0).then_with(|| a.1.cmp(&b.1)));
    v.into_iter().map(|(_, k, val)| (k, val)).collect()
}
