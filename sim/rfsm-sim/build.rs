use std::process::Command;
fn main() {
    let out = std::env::var("OUT_DIR").unwrap();
    let obj = format!("{}/getrandom_shim.o", out);
    let st = Command::new("cc").args(["-c", "-O2", "-fPIC", "shim/getrandom_shim.c", "-o", &obj]).status().expect("cc");
    assert!(st.success());
    println!("cargo:rustc-link-arg-bins={}", obj);
    println!("cargo:rerun-if-changed=shim/getrandom_shim.c");
}
