#include <stddef.h>
#include <stdint.h>
#include <sys/types.h>
static __thread uint64_t st = 0x9E3779B97F4A7C15ull;
static __thread int seeded = 0;
void verif_seed_hash(uint64_t s){ st = s ^ 0x9E3779B97F4A7C15ull; seeded = 1; }
static uint64_t next(void){ uint64_t z = (st += 0x9E3779B97F4A7C15ull); z = (z ^ (z >> 30)) * 0xBF58476D1CE4E5B9ull; z = (z ^ (z >> 27)) * 0x94D049BB133111EBull; return z ^ (z >> 31); }
ssize_t getrandom(void *buf, size_t len, unsigned int flags){ (void)flags; unsigned char *p = buf; for(size_t i=0;i<len;i++){ if((i&7)==0){ uint64_t v = next(); size_t n = len-i<8?len-i:8; for(size_t k=0;k<n;k++) p[i+k] = (unsigned char)(v>>(8*k)); } } return (ssize_t)len; }
