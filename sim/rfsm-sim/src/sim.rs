//! One simulated run = one shuttle execution on a fresh OS thread, under a seeded scheduler and a seeded
//! hash order, with the history recorder attached.

use crate::sched::{SchedKind, SchedRecord, SimScheduler};
use rfsm_verif_seams::rec::{self, Recorder};
use serde::{Deserialize, Serialize};
use std::cell::RefCell;
use std::sync::{Arc, Mutex, Once};

extern "C" {
    fn verif_seed_hash(s: u64);
}

#[derive(Clone, Debug, Serialize, Deserialize, PartialEq)]
pub struct TaskLockState {
    pub task: usize,
    pub name: String,
    pub holds: Vec<String>,
    pub wants: Option<String>,
}

#[derive(Clone, Debug, Serialize, Deserialize, PartialEq)]
pub enum Outcome {
    Completed,
    Panic { msg: String, location: String, task: usize, task_name: String, session: u32, holds: Vec<String> },
    Deadlock { msg: String, tasks: Vec<TaskLockState> },
    StepBound { tasks: Vec<TaskLockState> },
    ReplayDiverged(String),
    Harness(String),
}

pub struct RunResult {
    pub outcome: Outcome,
    pub rec: Recorder,
    pub sched: SchedRecord,
}

#[derive(Clone, Debug, Default)]
struct PanicNote {
    msg: String,
    location: String,
    task: usize,
    session: u32,
    holds: Vec<String>,
    task_name: String,
}

thread_local! {
    static LAST_PANIC: RefCell<Option<PanicNote>> = const { RefCell::new(None) };
}

static HOOK: Once = Once::new();

fn install_panic_hook() {
    HOOK.call_once(|| {
        std::panic::set_hook(Box::new(|info| {
            let msg = if let Some(s) = info.payload().downcast_ref::<&str>() {
                s.to_string()
            } else if let Some(s) = info.payload().downcast_ref::<String>() {
                s.clone()
            } else {
                "<non-string panic payload>".to_string()
            };
            let location = info.location().map(|l| format!("{}:{}", l.file(), l.line())).unwrap_or_default();
            let task = rec::current_task();
            LAST_PANIC.with(|p| {
                let mut p = p.borrow_mut();
                if p.is_none() {
                    let (session, holds, task_name) = rec::with(|r| {
                        (
                            r.task_session.get(&task).copied().unwrap_or(0),
                            r.held.get(&task).map(|v| v.iter().map(|x| x.1.to_string()).collect()).unwrap_or_default(),
                            r.task_names.get(&task).cloned().unwrap_or_default(),
                        )
                    });
                    *p = Some(PanicNote { msg, location, task, session, holds, task_name });
                }
            });
        }));
    });
}

fn lock_states() -> Vec<TaskLockState> {
    rec::lock_state()
        .into_iter()
        .map(|(task, name, held, w)| TaskLockState {
            task,
            name,
            holds: held.iter().map(|s| s.to_string()).collect(),
            wants: w.map(|s| s.to_string()),
        })
        .collect()
}

pub struct RunCfg {
    pub kind: SchedKind,
    pub sched_seed: u64,
    pub hash_seed: u64,
    pub max_steps: usize,
    pub record_log: bool,
    pub stack_size: usize,
}

pub fn run_one<F>(driver: F, cfg: RunCfg) -> RunResult
where
    F: FnOnce() + Send + 'static,
{
    install_panic_hook();
    let handle = std::thread::Builder::new()
        .name("sim-run".into())
        .stack_size(8 << 20)
        .spawn(move || {
            unsafe { verif_seed_hash(cfg.hash_seed) };
            rec::reset(cfg.record_log);
            rfsm_verif_seams::timer::reset();
            LAST_PANIC.with(|p| *p.borrow_mut() = None);
            crate::hooks::install_seam_hooks();
            let (sched, srec) = SimScheduler::new(cfg.kind.clone(), cfg.sched_seed);
            let mut config = shuttle::Config::new();
            config.stack_size = cfg.stack_size;
            config.failure_persistence = shuttle::FailurePersistence::None;
            config.max_steps = shuttle::MaxSteps::FailAfter(cfg.max_steps);
            config.silence_warnings = true;
            let runner = shuttle::Runner::new(sched, config);
            let cell = Mutex::new(Some(driver));
            let res = std::panic::catch_unwind(std::panic::AssertUnwindSafe(|| {
                runner.run(move || {
                    let f = cell.lock().unwrap().take();
                    if let Some(f) = f {
                        f()
                    }
                })
            }));
            let note = LAST_PANIC.with(|p| p.borrow_mut().take());
            let mut outcome = match res {
                Ok(_) => Outcome::Completed,
                Err(payload) => {
                    let pmsg = if let Some(s) = payload.downcast_ref::<&str>() {
                        s.to_string()
                    } else if let Some(s) = payload.downcast_ref::<String>() {
                        s.clone()
                    } else {
                        note.as_ref().map(|n| n.msg.clone()).unwrap_or_else(|| "<unknown panic>".into())
                    };
                    if pmsg.starts_with("deadlock!") {
                        Outcome::Deadlock { msg: pmsg, tasks: lock_states() }
                    } else if pmsg.starts_with("exceeded max_steps") {
                        Outcome::StepBound { tasks: lock_states() }
                    } else if pmsg.starts_with("HARNESS:") {
                        Outcome::Harness(pmsg)
                    } else {
                        let n = note.unwrap_or_default();
                        if n.msg.starts_with("HARNESS:") {
                            Outcome::Harness(n.msg)
                        } else {
                            Outcome::Panic { msg: pmsg, location: n.location, task: n.task, task_name: n.task_name, session: n.session, holds: n.holds }
                        }
                    }
                }
            };
            let sched = std::mem::take(&mut *srec.lock().unwrap());
            if let Some(d) = &sched.replay_diverged {
                outcome = Outcome::ReplayDiverged(d.clone());
            }
            rfsm_verif_seams::driver::fini();
            let mut recorder = rec::take();
            // GlobalData arcs contain shuttle channels: never drop them outside an execution
            std::mem::forget(std::mem::take(&mut recorder.session_global));
            RunResult { outcome, rec: recorder, sched }
        })
        .expect("spawn sim-run thread");
    match handle.join() {
        Ok(r) => r,
        Err(_) => RunResult {
            outcome: Outcome::Harness("HARNESS: sim-run thread panicked outside the execution".into()),
            rec: {
                rec::reset(false);
                rec::take()
            },
            sched: SchedRecord::default(),
        },
    }
}

/// Shared helper: keep an `Arc` to data produced inside the run (e.g. final configurations).
pub type Shared<T> = Arc<Mutex<T>>;
