//! One simulated run = one shuttle execution under a seeded scheduler and a seeded hash order, with the
//! history recorder attached.
//!
//! Executions are *pooled*: a long-lived "sim thread" runs many executions inside one
//! `shuttle::Runner::run` call, so that coroutine stacks are reused (in this sandbox page-table
//! operations - mmap/munmap/thread creation - are extremely slow when 16 processes do them at once).
//! A run that fails (panic, deadlock, step bound) unwinds out of `Runner::run`; its sim thread is then
//! abandoned and the next run gets a new one. Everything a run depends on is reset at its start:
//! recorder, timers, hash seed (collections seam), rFSM's static counters (inside the execution).

use crate::sched::{SchedKind, SchedRecord, SimScheduler};
use rfsm_verif_seams::rec::{self, Recorder};
use serde::{Deserialize, Serialize};
use shuttle::scheduler::{Schedule, Scheduler, Task, TaskId};
use std::cell::RefCell;
use std::sync::mpsc::{channel, Receiver, Sender};
use std::sync::{Arc, Mutex, Once};

#[derive(Clone, Debug, Serialize, Deserialize, PartialEq)]
pub struct TaskLockState {
    pub task: usize,
    pub name: String,
    pub holds: Vec<String>,
    pub wants: Option<String>,
    #[serde(default)]
    pub holds_ids: Vec<usize>,
    #[serde(default)]
    pub wants_id: Option<usize>,
    /// task that owns the wanted lock
    #[serde(default)]
    pub blocked_by: Option<usize>,
}

#[derive(Clone, Debug, Serialize, Deserialize, PartialEq)]
pub enum Outcome {
    Completed,
    Panic { msg: String, location: String, task: usize, task_name: String, session: u32, holds: Vec<String> },
    Deadlock { msg: String, tasks: Vec<TaskLockState> },
    StepBound { tasks: Vec<TaskLockState> },
    ReplayDiverged(String),
    Harness(String),
}

pub struct RunResult {
    pub outcome: Outcome,
    pub rec: Recorder,
    pub sched: SchedRecord,
}

#[derive(Clone, Debug, Default)]
struct PanicNote {
    msg: String,
    location: String,
    task: usize,
    session: u32,
    holds: Vec<String>,
    task_name: String,
}

thread_local! {
    static LAST_PANIC: RefCell<Option<PanicNote>> = const { RefCell::new(None) };
    static CURRENT_DRIVER: RefCell<Option<Box<dyn FnOnce() + Send>>> = const { RefCell::new(None) };
}

static HOOK: Once = Once::new();

fn install_panic_hook() {
    HOOK.call_once(|| {
        std::panic::set_hook(Box::new(|info| {
            let msg = if let Some(s) = info.payload().downcast_ref::<&str>() {
                s.to_string()
            } else if let Some(s) = info.payload().downcast_ref::<String>() {
                s.clone()
            } else {
                "<non-string panic payload>".to_string()
            };
            let location = info.location().map(|l| format!("{}:{}", l.file(), l.line())).unwrap_or_default();
            if std::env::var("VERIF_DEBUG_PANICS").is_ok() {
                eprintln!("PANIC (panicking already: {}) at {}: {}", std::thread::panicking(), location, msg);
            }
            let task = rec::current_task();
            LAST_PANIC.with(|p| {
                if let Ok(mut p) = p.try_borrow_mut() {
                    if p.is_none() {
                        let (session, holds, task_name) = rec::try_with(|r| {
                            (
                                r.task_session.get(&task).copied().unwrap_or(0),
                                r.held.get(&task).map(|v| v.iter().map(|x| x.1.to_string()).collect()).unwrap_or_default(),
                                r.task_names.get(&task).cloned().unwrap_or_default(),
                            )
                        })
                        .unwrap_or_default();
                        *p = Some(PanicNote { msg, location, task, session, holds, task_name });
                    }
                }
            });
        }));
    });
}

fn lock_states() -> Vec<TaskLockState> {
    rec::lock_state()
        .into_iter()
        .map(|(task, name, held, w)| TaskLockState {
            task,
            name,
            holds: held.iter().map(|s| s.1.to_string()).collect(),
            wants: w.map(|s| s.1.to_string()),
            holds_ids: held.iter().map(|s| s.0).collect(),
            wants_id: w.map(|s| s.0),
            blocked_by: w.and_then(|s| s.2),
        })
        .collect()
}

pub struct RunCfg {
    pub kind: SchedKind,
    pub sched_seed: u64,
    pub hash_seed: u64,
    pub record_log: bool,
}

struct Job {
    driver: Box<dyn FnOnce() + Send>,
    cfg: RunCfg,
}

struct PoolScheduler {
    jobs: Receiver<Job>,
    results: Sender<RunResult>,
    inner: Option<SimScheduler>,
    srec: Option<Arc<Mutex<SchedRecord>>>,
    /// shared with the thread body so that a failing run can be finalised there
    current: Arc<Mutex<Option<Arc<Mutex<SchedRecord>>>>>,
}

fn finalize(outcome: Outcome, srec: &Arc<Mutex<SchedRecord>>) -> RunResult {
    let sched = std::mem::take(&mut *srec.lock().unwrap());
    let mut outcome = outcome;
    if let Some(d) = &sched.replay_diverged {
        outcome = Outcome::ReplayDiverged(d.clone());
    }
    rfsm_verif_seams::driver::fini();
    let mut recorder = rec::take();
    // GlobalData arcs contain shuttle channels: never drop them outside an execution
    std::mem::forget(std::mem::take(&mut recorder.session_global));
    RunResult { outcome, rec: recorder, sched }
}

impl Scheduler for PoolScheduler {
    fn new_execution(&mut self) -> Option<Schedule> {
        // the previous execution (if any) completed normally
        if let Some(srec) = self.srec.take() {
            *self.current.lock().unwrap() = None;
            let _ = self.results.send(finalize(Outcome::Completed, &srec));
        }
        let job = match self.jobs.recv() {
            Ok(j) => j,
            Err(_) => return None,
        };
        rfsm_verif_seams::collections::seed(job.cfg.hash_seed);
        rec::reset(job.cfg.record_log);
        rfsm_verif_seams::timer::reset();
        LAST_PANIC.with(|p| *p.borrow_mut() = None);
        let (sched, srec) = SimScheduler::new(job.cfg.kind.clone(), job.cfg.sched_seed);
        self.inner = Some(sched);
        *self.current.lock().unwrap() = Some(srec.clone());
        self.srec = Some(srec);
        CURRENT_DRIVER.with(|d| *d.borrow_mut() = Some(job.driver));
        self.inner.as_mut().unwrap().new_execution()
    }

    fn next_task(&mut self, runnable: &[&Task], current: Option<TaskId>, is_yielding: bool) -> Option<TaskId> {
        self.inner.as_mut().unwrap().next_task(runnable, current, is_yielding)
    }

    fn next_u64(&mut self) -> u64 {
        self.inner.as_mut().unwrap().next_u64()
    }
}

pub struct SimPool {
    tx: Option<Sender<Job>>,
    rx: Receiver<RunResult>,
    thread: Option<std::thread::JoinHandle<()>>,
    pub dead: bool,
    pub runs: u64,
}

impl SimPool {
    pub fn new(max_steps: usize, stack_size: usize) -> SimPool {
        install_panic_hook();
        let (jtx, jrx) = channel::<Job>();
        let (rtx, rrx) = channel::<RunResult>();
        let thread = std::thread::Builder::new()
            .name("sim".into())
            .stack_size(16 << 20)
            .spawn(move || {
                crate::hooks::install_seam_hooks();
                let current: Arc<Mutex<Option<Arc<Mutex<SchedRecord>>>>> = Arc::new(Mutex::new(None));
                let sched = PoolScheduler { jobs: jrx, results: rtx.clone(), inner: None, srec: None, current: current.clone() };
                let mut config = shuttle::Config::new();
                config.stack_size = stack_size;
                config.failure_persistence = shuttle::FailurePersistence::None;
                config.max_steps = shuttle::MaxSteps::FailAfter(max_steps);
                config.silence_warnings = true;
                let runner = shuttle::Runner::new(sched, config);
                let res = std::panic::catch_unwind(std::panic::AssertUnwindSafe(|| {
                    runner.run(|| {
                        let f = CURRENT_DRIVER.with(|d| d.borrow_mut().take());
                        if let Some(f) = f {
                            f()
                        }
                    })
                }));
                if let Err(payload) = res {
                    let note = LAST_PANIC.with(|p| p.borrow_mut().take());
                    let pmsg = if let Some(s) = payload.downcast_ref::<&str>() {
                        s.to_string()
                    } else if let Some(s) = payload.downcast_ref::<String>() {
                        s.clone()
                    } else {
                        note.as_ref().map(|n| n.msg.clone()).unwrap_or_else(|| "<unknown panic>".into())
                    };
                    let outcome = if pmsg.starts_with("deadlock!") {
                        Outcome::Deadlock { msg: pmsg, tasks: lock_states() }
                    } else if pmsg.starts_with("exceeded max_steps") {
                        Outcome::StepBound { tasks: lock_states() }
                    } else if pmsg.starts_with("HARNESS:") {
                        Outcome::Harness(pmsg)
                    } else {
                        let n = note.unwrap_or_default();
                        if n.msg.starts_with("HARNESS:") {
                            Outcome::Harness(n.msg)
                        } else {
                            // the first panic of the execution is the cause; the payload that reaches us can be a
                            // follow-up panic raised while the failed execution is torn down
                            let msg = if n.msg.is_empty() { pmsg } else { n.msg.clone() };
                            Outcome::Panic { msg, location: n.location, task: n.task, task_name: n.task_name, session: n.session, holds: n.holds }
                        }
                    };
                    let srec = current.lock().unwrap().take();
                    if let Some(srec) = srec {
                        let _ = rtx.send(finalize(outcome, &srec));
                    }
                }
            })
            .expect("spawn sim thread");
        SimPool { tx: Some(jtx), rx: rrx, thread: Some(thread), dead: false, runs: 0 }
    }

    /// Run one execution. After a failing run the pool is dead and must be replaced.
    pub fn run(&mut self, driver: Box<dyn FnOnce() + Send>, cfg: RunCfg) -> RunResult {
        self.runs += 1;
        let harness = |m: &str| RunResult {
            outcome: Outcome::Harness(format!("HARNESS: {}", m)),
            rec: {
                rec::reset(false);
                rec::take()
            },
            sched: SchedRecord::default(),
        };
        if self.dead || self.tx.as_ref().unwrap().send(Job { driver, cfg }).is_err() {
            self.dead = true;
            return harness("sim thread not available");
        }
        // A completed run is reported when the scheduler is asked for the next execution, which happens
        // right after the execution's cleanup; a failed run is reported by the thread body.
        match self.rx.recv() {
            Ok(r) => {
                if !matches!(r.outcome, Outcome::Completed) {
                    self.dead = true;
                }
                r
            }
            Err(_) => {
                self.dead = true;
                harness("sim thread died without a result")
            }
        }
    }
}

impl Drop for SimPool {
    fn drop(&mut self) {
        self.tx.take();
        if let Some(t) = self.thread.take() {
            if self.dead {
                // a failed execution may leave the thread unwinding or finished; do not wait for leaks
                let _ = t.join();
            } else {
                let _ = t.join();
            }
        }
    }
}
