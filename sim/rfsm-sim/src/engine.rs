//! The check engine: seeded workload generation, schedules per workload, oracle evaluation,
//! minimisation, replay files, worker processes and evidence.

use crate::scenario::{run_scenario, DriverOut, Scenario};
use crate::sched::{SchedKind, SchedRecord};
use crate::sim::{Outcome, RunCfg, SimPool};
use crate::util::{hash_str, mix2, Rng};
use rfsm_verif_seams::rec::{Rec, Recorder};
use serde::{Deserialize, Serialize};
use serde_json::{json, Value};
use std::collections::{BTreeMap, BTreeSet};
use std::sync::{Arc, Mutex};

pub const DEFAULT_SEED: u64 = 20260922;

#[derive(Clone, Copy, Debug, PartialEq, Eq)]
pub enum Tier {
    Quick,
    Thorough,
}

impl Tier {
    pub fn name(&self) -> &'static str {
        match self {
            Tier::Quick => "quick",
            Tier::Thorough => "thorough",
        }
    }
}

#[derive(Clone, Debug, Serialize, Deserialize, PartialEq)]
pub struct Violation {
    pub property: String,
    /// oracle rule id, e.g. "C13.lost"
    pub rule: String,
    pub msg: String,
    /// identifies the specific failing thing for the known-findings match (deadlock signature,
    /// panic site, rule + scenario class)
    pub signature: String,
}

pub struct RunView<'a> {
    pub sc: &'a Scenario,
    pub outcome: &'a Outcome,
    pub log: &'a [Rec],
    pub rec: &'a Recorder,
    pub out: &'a DriverOut,
    pub sched: &'a SchedRecord,
}

#[derive(Default, Clone, Debug)]
pub struct Probes {
    pub counts: BTreeMap<String, u64>,
}

impl Probes {
    pub fn hit(&mut self, k: &str) {
        *self.counts.entry(k.to_string()).or_insert(0) += 1;
    }
    pub fn add(&mut self, k: &str, n: u64) {
        if n > 0 {
            *self.counts.entry(k.to_string()).or_insert(0) += n;
        }
    }
}

/// Result of evaluating the oracles of one property on one run.
#[derive(Default)]
pub struct Verdict {
    pub violations: Vec<Violation>,
    /// rules of *other* properties that fired (recorded, never reported by this check)
    pub other_rules: Vec<String>,
    /// oracle comparisons performed
    pub evaluations: u64,
    /// non-trivial by the property's stated rule
    pub nontrivial: bool,
    /// the run could not be judged (died of something that is another property's business)
    pub discarded: Option<String>,
}

pub trait Property: Sync {
    fn id(&self) -> &'static str;
    fn level(&self) -> &'static str {
        "exploration"
    }
    /// number of workloads for the tier
    fn workloads(&self, tier: Tier) -> u64;
    fn schedules_per_workload(&self, tier: Tier) -> usize {
        match tier {
            Tier::Quick => 4,
            Tier::Thorough => 8,
        }
    }
    fn max_steps(&self) -> usize {
        400_000
    }
    fn generate(&self, rng: &mut Rng, tier: Tier, index: u64) -> Scenario;
    fn check(&self, v: &RunView, probes: &mut Probes) -> Verdict;
    /// probes that must be > 0 over the whole batch, else the check is a harness error (exit 2)
    fn required_probes(&self) -> Vec<&'static str> {
        vec![]
    }
    fn nontrivial_rule(&self) -> &'static str;
    fn assumptions(&self) -> Vec<String> {
        vec![]
    }
    /// property-specific shrink candidates (documents); generic script/producer shrinking is done by the engine
    fn shrink_docs(&self, _sc: &Scenario) -> Vec<Scenario> {
        vec![]
    }
    /// scheduler for schedule j of a workload
    fn sched_kind(&self, rng: &mut Rng, j: usize, est_len: usize) -> SchedKind {
        default_sched_kind(rng, j, est_len)
    }
}

pub fn default_sched_kind(rng: &mut Rng, j: usize, est_len: usize) -> SchedKind {
    if j == 0 {
        // first schedule of a workload: uniform random; it also measures the execution length for PCT
        SchedKind::Random
    } else {
        match rng.below(10) {
            0..=2 => SchedKind::Random,
            _ => SchedKind::Pct { depth: 1 + rng.below(5) as usize, est_len },
        }
    }
}

pub struct ExecResult {
    pub outcome: Outcome,
    pub rec: Recorder,
    pub sched: SchedRecord,
    pub out: DriverOut,
}

thread_local! {
    static POOL: std::cell::RefCell<Option<(usize, SimPool)>> = const { std::cell::RefCell::new(None) };
}

/// Simulated tasks get 4 MiB stacks (boa, quick-xml); they are allocated once per pool and reused.
const TASK_STACK: usize = 4 << 20;

pub fn execute(sc: &Arc<Scenario>, kind: SchedKind, sched_seed: u64, hash_seed: u64, max_steps: usize) -> ExecResult {
    let out = Arc::new(Mutex::new(DriverOut::default()));
    let (sc2, out2) = (sc.clone(), out.clone());
    let r = POOL.with(|p| {
        let mut p = p.borrow_mut();
        let need_new = match &*p {
            Some((ms, pool)) => *ms != max_steps || pool.dead || pool.runs >= 20_000,
            None => true,
        };
        if need_new {
            *p = None;
            *p = Some((max_steps, SimPool::new(max_steps, TASK_STACK)));
        }
        let pool = &mut p.as_mut().unwrap().1;
        pool.run(Box::new(move || run_scenario(sc2, out2)), RunCfg { kind, sched_seed, hash_seed, record_log: true })
    });
    let o = out.lock().unwrap().clone();
    ExecResult { outcome: r.outcome, rec: r.rec, sched: r.sched, out: o }
}

pub fn repo_src_hash() -> String {
    fn walk(dir: &std::path::Path, out: &mut Vec<std::path::PathBuf>) {
        if let Ok(rd) = std::fs::read_dir(dir) {
            for e in rd.flatten() {
                let p = e.path();
                if p.is_dir() {
                    walk(&p, out);
                } else {
                    out.push(p);
                }
            }
        }
    }
    let root = std::env::var("VERIF_REPO").unwrap_or_else(|_| "/repo".into());
    let mut files = Vec::new();
    walk(std::path::Path::new(&format!("{}/src", root)), &mut files);
    files.sort();
    let mut h = 0u64;
    for f in files {
        if let Ok(b) = std::fs::read(&f) {
            h = mix2(h, crate::util::fnv(&b) ^ hash_str(&f.to_string_lossy()));
        }
    }
    format!("{:016x}", h)
}

pub fn history_digest(log: &[Rec]) -> u64 {
    let mut h: u64 = 0xcbf2_9ce4_8422_2325;
    for r in log {
        let s = format!("{}|{}|{}|{}|{:?}", r.seq, r.task, r.session, r.time, r.kind);
        h = mix2(h, hash_str(&s));
    }
    h
}

#[derive(Clone, Debug, Serialize, Deserialize)]
pub struct ReplayFile {
    pub property: String,
    pub rule: String,
    pub msg: String,
    pub signature: String,
    pub verif_seed: u64,
    pub workload_index: u64,
    pub schedule_index: usize,
    pub sched_kind: String,
    pub hash_seed: u64,
    pub max_steps: usize,
    pub minimised: bool,
    pub original_size: usize,
    pub minimised_size: usize,
    pub choices: Vec<u32>,
    pub randoms: Vec<u64>,
    pub context_switches: usize,
    pub history_digest: String,
    /// hash of /repo/src at recording time: a replay that diverges on the *same* tree is a harness error
    #[serde(default)]
    pub repo_src_hash: String,
    pub outcome: Outcome,
    pub scenario: Scenario,
}

pub fn scenario_size(sc: &Scenario) -> usize {
    sc.script.len() + sc.producers.iter().map(|p| p.len() + 1).sum::<usize>() + sc.docs.iter().map(|d| d.xml.len() / 40 + 1).sum::<usize>()
}

#[derive(Default)]
pub struct WorkerStats {
    pub workloads: u64,
    pub runs: u64,
    pub completed: u64,
    pub discarded: u64,
    pub discarded_reasons: BTreeMap<String, u64>,
    pub evaluations: u64,
    pub nontrivial_sigs: BTreeSet<u64>,
    pub all_sigs: BTreeSet<u64>,
    pub sched_points: u64,
    pub context_switches: u64,
    pub steps_max: usize,
    pub sim_time_ms: u64,
    pub sched_mix: BTreeMap<String, u64>,
    pub probes: Probes,
    pub fault_kinds: BTreeMap<String, u64>,
    pub lock_edges: BTreeMap<String, u64>,
    pub other_rules: BTreeMap<String, u64>,
    pub known: BTreeMap<String, u64>,
    pub violations: Vec<(Violation, String)>, // (violation, replay path)
    pub samples: Vec<Value>,
    pub outcomes: BTreeMap<String, u64>,
    pub harness_errors: Vec<String>,
}

#[derive(Clone, Debug, Deserialize)]
pub struct KnownFinding {
    pub property: String,
    pub rule: String,
    /// exact signature, or a prefix ending in '*'
    pub signature: String,
    pub what: String,
    #[serde(default)]
    pub status: String, // "open" | "fixed"
}

pub fn load_known(path: &str) -> Vec<KnownFinding> {
    match std::fs::read_to_string(path) {
        Ok(s) => {
            let v: Value = serde_json::from_str(&s).unwrap_or(json!({"findings": []}));
            v["findings"].as_array().cloned().unwrap_or_default().into_iter().filter_map(|x| serde_json::from_value(x).ok()).collect()
        }
        Err(_) => vec![],
    }
}

pub fn known_match<'a>(known: &'a [KnownFinding], v: &Violation) -> Option<&'a KnownFinding> {
    known.iter().find(|k| {
        k.status != "fixed"
            && k.property == v.property
            && k.rule == v.rule
            && (k.signature == v.signature || (k.signature.ends_with('*') && v.signature.starts_with(&k.signature[..k.signature.len() - 1])))
    })
}

fn outcome_tag(o: &Outcome) -> &'static str {
    match o {
        Outcome::Completed => "completed",
        Outcome::Panic { .. } => "panic",
        Outcome::Deadlock { .. } => "deadlock",
        Outcome::StepBound { .. } => "step-bound",
        Outcome::ReplayDiverged(_) => "replay-diverged",
        Outcome::Harness(_) => "harness-error",
    }
}

fn kind_tag(k: &SchedKind) -> String {
    match k {
        SchedKind::Random => "random".into(),
        SchedKind::Pct { depth, .. } => format!("pct{}", depth),
        SchedKind::Oldest => "oldest".into(),
        SchedKind::Replay { .. } => "replay".into(),
    }
}

pub fn workload_seed(verif_seed: u64, prop: &str, index: u64) -> u64 {
    mix2(verif_seed ^ hash_str(prop), index)
}

pub struct Judged {
    pub exec: ExecResult,
    pub verdict: Verdict,
}

pub fn judge(prop: &dyn Property, sc: &Arc<Scenario>, kind: SchedKind, sched_seed: u64, hash_seed: u64, probes: &mut Probes) -> Judged {
    let exec = execute(sc, kind, sched_seed, hash_seed, prop.max_steps());
    let verdict = {
        let view = RunView { sc, outcome: &exec.outcome, log: &exec.rec.log, rec: &exec.rec, out: &exec.out, sched: &exec.sched };
        prop.check(&view, probes)
    };
    Judged { exec, verdict }
}

/// Generic structural shrinking of a scenario: fewer producers, fewer producer steps, fewer script steps.
fn generic_candidates(sc: &Scenario) -> Vec<Scenario> {
    use crate::scenario::Step;
    let mut out = Vec::new();
    // drop a whole producer (keep indices stable: empty its script)
    for p in 0..sc.producers.len() {
        if !sc.producers[p].is_empty() {
            let mut c = sc.clone();
            c.producers[p].clear();
            out.push(c);
        }
    }
    // halve / drop single producer steps
    for p in 0..sc.producers.len() {
        let n = sc.producers[p].len();
        if n > 1 {
            let mut c = sc.clone();
            c.producers[p].truncate(n / 2);
            out.push(c);
        }
        for k in 0..n {
            let mut c = sc.clone();
            c.producers[p].remove(k);
            out.push(c);
        }
    }
    // drop script steps that are not structural
    for k in 0..sc.script.len() {
        let removable = matches!(
            sc.script[k],
            Step::Send { .. } | Step::Advance { .. } | Step::Ping | Step::Cancel { .. } | Step::Shutdown | Step::DrainTimers { .. } | Step::Quiesce | Step::Jitter { .. }
        );
        if removable {
            let mut c = sc.clone();
            c.script.remove(k);
            out.push(c);
        }
    }
    out
}

pub struct Failing {
    pub sc: Arc<Scenario>,
    pub kind: SchedKind,
    pub sched_seed: u64,
    pub hash_seed: u64,
    pub exec: ExecResult,
    pub violation: Violation,
}

/// Delta-debugging style minimisation: a candidate is kept if the *same rule of the same property* fires
/// under the original scheduler seed or one of `extra_seeds` further seeds.
pub fn minimise(prop: &dyn Property, mut best: Failing, extra_seeds: usize, budget_runs: usize) -> (Failing, usize) {
    let mut runs = 0usize;
    let mut progress = true;
    let mut scratch = Probes::default();
    while progress && runs < budget_runs {
        progress = false;
        let mut cands = generic_candidates(&best.sc);
        cands.extend(prop.shrink_docs(&best.sc));
        cands.sort_by_key(scenario_size);
        'cand: for c in cands {
            if scenario_size(&c) >= scenario_size(&best.sc) {
                continue;
            }
            let c = Arc::new(c);
            for s in 0..=extra_seeds {
                if runs >= budget_runs {
                    break 'cand;
                }
                let (kind, seed) = if s == 0 {
                    (best.kind.clone(), best.sched_seed)
                } else {
                    let mut r = Rng::new(mix2(best.sched_seed, s as u64));
                    let est = best.exec.sched.decisions.max(8);
                    (default_sched_kind(&mut r, s, est), r.next())
                };
                let kind = match kind {
                    SchedKind::Replay { .. } => SchedKind::Random,
                    k => k,
                };
                runs += 1;
                let j = judge(prop, &c, kind.clone(), seed, best.hash_seed, &mut scratch);
                if let Some(v) = j.verdict.violations.iter().find(|v| v.property == best.violation.property && v.rule == best.violation.rule && v.signature == best.violation.signature) {
                    best = Failing { sc: c.clone(), kind, sched_seed: seed, hash_seed: best.hash_seed, exec: j.exec, violation: v.clone() };
                    progress = true;
                    break 'cand;
                }
            }
        }
    }
    // schedule simplification: look for a failing schedule with fewer context switches
    for (k, kind) in [SchedKind::Oldest, SchedKind::Pct { depth: 1, est_len: 64 }, SchedKind::Pct { depth: 2, est_len: best.exec.sched.decisions.max(8) }]
        .into_iter()
        .enumerate()
    {
        for s in 0..4u64 {
            if runs >= budget_runs + 16 {
                break;
            }
            runs += 1;
            let seed = mix2(best.sched_seed, 1000 + k as u64 * 10 + s);
            let j = judge(prop, &best.sc, kind.clone(), seed, best.hash_seed, &mut scratch);
            if let Some(v) = j.verdict.violations.iter().find(|v| v.property == best.violation.property && v.rule == best.violation.rule && v.signature == best.violation.signature) {
                if j.exec.sched.context_switches < best.exec.sched.context_switches {
                    best = Failing { sc: best.sc.clone(), kind: kind.clone(), sched_seed: seed, hash_seed: best.hash_seed, exec: j.exec, violation: v.clone() };
                }
            }
            if matches!(kind, SchedKind::Oldest) {
                break;
            }
        }
    }
    (best, runs)
}

pub fn write_replay(dir: &str, prop: &str, verif_seed: u64, widx: u64, sidx: usize, f: &Failing, minimised: bool, original_size: usize) -> String {
    let _ = std::fs::create_dir_all(format!("{}/{}", dir, prop));
    let path = format!("{}/{}/{}-{}-{}.json", dir, prop, verif_seed, widx, sidx);
    let rf = ReplayFile {
        property: f.violation.property.clone(),
        rule: f.violation.rule.clone(),
        msg: f.violation.msg.clone(),
        signature: f.violation.signature.clone(),
        verif_seed,
        workload_index: widx,
        schedule_index: sidx,
        sched_kind: kind_tag(&f.kind),
        hash_seed: f.hash_seed,
        max_steps: 0,
        minimised,
        original_size,
        minimised_size: scenario_size(&f.sc),
        choices: f.exec.sched.choices.clone(),
        randoms: f.exec.sched.randoms.clone(),
        context_switches: f.exec.sched.context_switches,
        history_digest: format!("{:016x}", history_digest(&f.exec.rec.log)),
        repo_src_hash: repo_src_hash(),
        outcome: f.exec.outcome.clone(),
        scenario: (*f.sc).clone(),
    };
    std::fs::write(&path, serde_json::to_string_pretty(&rf).unwrap()).expect("write replay file");
    path
}

pub struct WorkerArgs {
    pub verif_seed: u64,
    pub tier: Tier,
    pub worker: u64,
    pub workers: u64,
    pub replay_dir: String,
    pub known_path: String,
    pub max_violations: usize,
    pub workloads_override: Option<u64>,
}

/// Run this worker's share of the workloads (index % workers == worker).
pub fn worker_loop(prop: &dyn Property, a: &WorkerArgs) -> WorkerStats {
    let mut st = WorkerStats::default();
    let known = load_known(&a.known_path);
    let n = a.workloads_override.unwrap_or_else(|| prop.workloads(a.tier));
    let m = prop.schedules_per_workload(a.tier);
    let mut reported: BTreeSet<(String, String)> = BTreeSet::new();
    let mut idx = a.worker;
    while idx < n {
        let wseed = workload_seed(a.verif_seed, prop.id(), idx);
        let mut rng = Rng::new(wseed);
        let sc = Arc::new(prop.generate(&mut rng.fork(), a.tier, idx));
        st.workloads += 1;
        let mut est_len = 64usize;
        for j in 0..m {
            let mut srng = Rng::new(mix2(wseed, 0x5c4ed + j as u64));
            let kind = prop.sched_kind(&mut srng, j, est_len);
            let sched_seed = srng.next();
            let hash_seed = mix2(wseed, 0x4a54 + j as u64);
            let jd = judge(prop, &sc, kind.clone(), sched_seed, hash_seed, &mut st.probes);
            st.runs += 1;
            *st.sched_mix.entry(kind_tag(&kind)).or_insert(0) += 1;
            *st.outcomes.entry(outcome_tag(&jd.exec.outcome).to_string()).or_insert(0) += 1;
            est_len = est_len.max(jd.exec.sched.decisions);
            st.sched_points += jd.exec.sched.decisions as u64;
            st.context_switches += jd.exec.sched.context_switches as u64;
            st.steps_max = st.steps_max.max(jd.exec.sched.choices.len());
            st.sim_time_ms += jd.exec.rec.now;
            for ((x, y), c) in &jd.exec.rec.lock_edges {
                *st.lock_edges.entry(format!("{}->{}", x, y)).or_insert(0) += c;
            }
            if let Outcome::Harness(h) = &jd.exec.outcome {
                if st.harness_errors.len() < 5 {
                    st.harness_errors.push(format!("workload {} schedule {}: {}", idx, j, h));
                }
                continue;
            }
            let sig = mix2(hash_str(&serde_json::to_string(&*sc).unwrap_or_default()), jd.exec.sched.signature);
            st.all_sigs.insert(sig);
            st.evaluations += jd.verdict.evaluations;
            for o in &jd.verdict.other_rules {
                *st.other_rules.entry(o.clone()).or_insert(0) += 1;
            }
            if let Some(d) = &jd.verdict.discarded {
                if d.starts_with("harness") && st.harness_errors.len() < 5 {
                    st.harness_errors.push(format!("workload {} schedule {}: {}", idx, j, d));
                }
                if std::env::var("VERIF_DEBUG_DISCARD").is_ok() {
                    eprintln!("DISCARDED workload {} schedule {}: {}", idx, j, d);
                }
                st.discarded += 1;
                *st.discarded_reasons.entry(d.clone()).or_insert(0) += 1;
            } else {
                st.completed += 1;
                if jd.verdict.nontrivial {
                    st.nontrivial_sigs.insert(sig);
                }
            }
            if st.samples.len() < 2 && jd.verdict.discarded.is_none() && jd.verdict.violations.is_empty() && jd.verdict.nontrivial {
                st.samples.push(sample_of(&sc, &jd, idx, j, &kind));
            }
            // violations
            let mut unknown: Vec<Violation> = Vec::new();
            for v in &jd.verdict.violations {
                if let Some(k) = known_match(&known, v) {
                    *st.known.entry(format!("property={} {} [{}: {}]", v.property, k.what, v.rule, v.signature)).or_insert(0) += 1;
                } else {
                    unknown.push(v.clone());
                }
            }
            if let Some(v) = unknown.first() {
                let key = (v.rule.clone(), v.signature.clone());
                if !reported.contains(&key) && st.violations.len() < a.max_violations {
                    reported.insert(key);
                    let orig_size = scenario_size(&sc);
                    let failing = Failing { sc: sc.clone(), kind: kind.clone(), sched_seed, hash_seed, exec: jd.exec, violation: v.clone() };
                    let (extra, budget) = match a.tier {
                        Tier::Quick => (3, 1500),
                        Tier::Thorough => (8, 4000),
                    };
                    let (min, _runs) = minimise(prop, failing, extra, budget);
                    let path = write_replay(&a.replay_dir, prop.id(), a.verif_seed, idx, j, &min, true, orig_size);
                    st.violations.push((min.violation.clone(), path));
                }
                break; // next workload
            }
        }
        idx += a.workers;
    }
    st
}

fn sample_of(sc: &Scenario, jd: &Judged, idx: u64, j: usize, kind: &SchedKind) -> Value {
    let mut trace: Vec<String> = Vec::new();
    for r in jd.exec.rec.log.iter() {
        use rfsm_verif_seams::rec::RecKind::*;
        let s = match &r.kind {
            Send { chan, ev, .. } => Some(format!("t{} send ch{} {}", r.task, chan, ev.as_ref().map(|e| e.name.as_str()).unwrap_or("?"))),
            ExtRecv { ev } => Some(format!("s{} recv {}", r.session, ev.name)),
            IntRecv { ev } => Some(format!("s{} int {}", r.session, ev.name)),
            Enter { name, .. } => Some(format!("s{} enter {}", r.session, name)),
            Exit { name, .. } => Some(format!("s{} exit {}", r.session, name)),
            TimerFire { item } => Some(format!("@{} timer fire #{}", r.time, item)),
            Mark { args, .. } => Some(format!("s{} mark {}", r.session, args.join(","))),
            _ => None,
        };
        if let Some(s) = s {
            trace.push(s);
        }
        if trace.len() >= 40 {
            trace.push("...".into());
            break;
        }
    }
    json!({
        "workload_index": idx,
        "schedule_index": j,
        "scheduler": kind_tag(kind),
        "scenario_kind": sc.kind,
        "documents": sc.docs.iter().map(|d| d.xml.chars().take(1500).collect::<String>()).collect::<Vec<_>>(),
        "script": sc.script.iter().map(|s| format!("{:?}", s)).collect::<Vec<_>>(),
        "producers": sc.producers.iter().map(|p| p.iter().map(|s| format!("{:?}", s)).collect::<Vec<_>>()).collect::<Vec<_>>(),
        "scheduling_decisions": jd.exec.sched.decisions,
        "context_switches": jd.exec.sched.context_switches,
        "history_excerpt": trace,
    })
}

pub fn stats_to_json(st: &WorkerStats) -> Value {
    json!({
        "workloads": st.workloads, "runs": st.runs, "completed": st.completed, "discarded": st.discarded,
        "discarded_reasons": st.discarded_reasons, "evaluations": st.evaluations,
        "nontrivial_sigs": st.nontrivial_sigs.iter().collect::<Vec<_>>(),
        "all_sigs": st.all_sigs.iter().collect::<Vec<_>>(),
        "sched_points": st.sched_points, "context_switches": st.context_switches, "steps_max": st.steps_max,
        "sim_time_ms": st.sim_time_ms, "sched_mix": st.sched_mix, "probes": st.probes.counts,
        "fault_kinds": st.fault_kinds, "lock_edges": st.lock_edges, "other_rules": st.other_rules, "known": st.known,
        "violations": st.violations.iter().map(|(v, p)| json!({"v": v, "path": p})).collect::<Vec<_>>(),
        "samples": st.samples, "outcomes": st.outcomes, "harness_errors": st.harness_errors,
    })
}
