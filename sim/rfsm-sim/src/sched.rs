//! Seeded schedulers for shuttle executions: uniform random, PCT (priority based with d-1 priority
//! change points) and replay of a recorded choice sequence. Every decision is recorded; the record is
//! the schedule stored in replay files.

use crate::util::Rng;
use serde::{Deserialize, Serialize};
use shuttle::scheduler::{Schedule, Scheduler, Task, TaskId};
use std::sync::{Arc, Mutex};

#[derive(Clone, Debug, Serialize, Deserialize, PartialEq)]
pub enum SchedKind {
    Random,
    /// depth d: d-1 priority change points sampled in [1, est_len]
    Pct { depth: usize, est_len: usize },
    /// oldest runnable task first (the calibration run)
    Oldest,
    Replay { choices: Vec<u32>, randoms: Vec<u64> },
}

#[derive(Default, Debug)]
pub struct SchedRecord {
    pub choices: Vec<u32>,
    pub randoms: Vec<u64>,
    /// scheduling decisions where more than one task was runnable
    pub decisions: usize,
    pub context_switches: usize,
    pub max_tasks: usize,
    pub replay_diverged: Option<String>,
    /// rolling hash over (position, chosen task) at context switches
    pub signature: u64,
}

pub struct SimScheduler {
    kind: SchedKind,
    rng: Rng,
    started: bool,
    rec: Arc<Mutex<SchedRecord>>,
    // pct
    priorities: Vec<usize>,
    next_priority: usize,
    change_points: Vec<usize>,
    steps: usize,
    // replay
    pos: usize,
    rpos: usize,
}

impl SimScheduler {
    pub fn new(kind: SchedKind, seed: u64) -> (SimScheduler, Arc<Mutex<SchedRecord>>) {
        let rec = Arc::new(Mutex::new(SchedRecord::default()));
        let mut rng = Rng::new(seed ^ 0x5ced_5ced_5ced_5ced);
        let mut change_points = Vec::new();
        if let SchedKind::Pct { depth, est_len } = &kind {
            let n = depth.saturating_sub(1);
            let len = (*est_len).max(2);
            for _ in 0..n {
                change_points.push(1 + rng.below((len - 1) as u64) as usize);
            }
        }
        (
            SimScheduler {
                kind,
                rng,
                started: false,
                rec: rec.clone(),
                priorities: Vec::new(),
                next_priority: 0,
                change_points,
                steps: 0,
                pos: 0,
                rpos: 0,
            },
            rec,
        )
    }

    fn ensure_priority(&mut self, task: usize) {
        while self.priorities.len() <= task {
            // give the new task a random rank among the existing ones by swapping
            let new_id = self.priorities.len();
            let p = self.next_priority;
            self.next_priority += 1;
            self.priorities.push(p);
            if new_id > 0 {
                let other = self.rng.below((new_id + 1) as u64) as usize;
                self.priorities.swap(new_id, other);
            }
        }
    }
}

impl Scheduler for SimScheduler {
    fn new_execution(&mut self) -> Option<Schedule> {
        if self.started {
            return None;
        }
        self.started = true;
        Some(Schedule::new(0))
    }

    fn next_task(&mut self, runnable: &[&Task], current: Option<TaskId>, is_yielding: bool) -> Option<TaskId> {
        let ids: Vec<usize> = runnable.iter().map(|t| usize::from(t.id())).collect();
        let cur: Option<usize> = current.map(usize::from);
        let choice: usize = match &self.kind {
            SchedKind::Random => ids[self.rng.below(ids.len() as u64) as usize],
            SchedKind::Oldest => *ids.iter().min().unwrap(),
            SchedKind::Pct { .. } => {
                let maxid = *ids.iter().max().unwrap();
                self.ensure_priority(maxid);
                if ids.len() > 1 {
                    if self.change_points.contains(&self.steps) || is_yielding {
                        if let Some(c) = cur {
                            self.ensure_priority(c);
                            self.priorities[c] = self.next_priority;
                            self.next_priority += 1;
                        }
                    }
                    self.steps += 1;
                }
                *ids.iter().min_by_key(|t| self.priorities[**t]).unwrap()
            }
            SchedKind::Replay { choices, .. } => {
                if self.pos < choices.len() {
                    let c = choices[self.pos] as usize;
                    self.pos += 1;
                    if ids.contains(&c) {
                        c
                    } else {
                        // never stop an execution early (unfinished coroutines cannot be unwound safely):
                        // note the divergence and let the run finish under oldest-first
                        let mut r = self.rec.lock().unwrap();
                        if r.replay_diverged.is_none() {
                            r.replay_diverged = Some(format!("step {}: recorded task {} not runnable (runnable {:?})", self.pos - 1, c, ids));
                        }
                        *ids.iter().min().unwrap()
                    }
                } else {
                    let mut r = self.rec.lock().unwrap();
                    if r.replay_diverged.is_none() {
                        r.replay_diverged = Some(format!("schedule exhausted at step {}", self.pos));
                    }
                    *ids.iter().min().unwrap()
                }
            }
        };
        {
            let mut r = self.rec.lock().unwrap();
            r.choices.push(choice as u32);
            if ids.len() > 1 {
                r.decisions += 1;
            }
            if ids.len() > r.max_tasks {
                r.max_tasks = ids.len();
            }
            if cur != Some(choice) {
                r.context_switches += 1;
                let n = r.context_switches as u64;
                r.signature = (r.signature ^ (choice as u64).wrapping_add(n.wrapping_mul(0x9E37_79B9_7F4A_7C15)))
                    .wrapping_mul(0x0000_0100_0000_01B3);
            }
        }
        rfsm_verif_seams::rec::set_current_task(choice);
        Some(TaskId::from(choice))
    }

    fn next_u64(&mut self) -> u64 {
        let v = match &self.kind {
            SchedKind::Replay { randoms, .. } => {
                let v = randoms.get(self.rpos).copied().unwrap_or(0);
                self.rpos += 1;
                v
            }
            _ => self.rng.next(),
        };
        self.rec.lock().unwrap().randoms.push(v);
        v
    }
}
