//! Statechart generator and its document model (the oracle's view of a document).
use serde::{Deserialize, Serialize};

#[derive(Clone, Debug, Serialize, Deserialize, PartialEq, Default)]
pub struct Doc {
    pub name: String,
}
