//! Statechart generator and its document model. The model is the oracle's view of a document: the
//! reference interpreter runs on it, the XML handed to rFSM is rendered from it.

use crate::util::Rng;
use serde::{Deserialize, Serialize};

#[derive(Clone, Copy, Debug, Serialize, Deserialize, PartialEq, Eq)]
pub enum Dm {
    Null,
    Rfsm,
    Ecma,
}

#[derive(Clone, Copy, Debug, Serialize, Deserialize, PartialEq, Eq)]
pub enum Kind {
    State,
    Parallel,
    Final,
    HistoryShallow,
    HistoryDeep,
}

impl Kind {
    pub fn is_history(&self) -> bool {
        matches!(self, Kind::HistoryShallow | Kind::HistoryDeep)
    }
}

#[derive(Clone, Debug, Serialize, Deserialize, PartialEq)]
pub enum Expr {
    Int(i64),
    Str(String),
    Bool(bool),
    Var(String),
    Add(Box<Expr>, Box<Expr>),
    Sub(Box<Expr>, Box<Expr>),
    Eq(Box<Expr>, Box<Expr>),
    Lt(Box<Expr>, Box<Expr>),
    And(Box<Expr>, Box<Expr>),
    Not(Box<Expr>),
    In(String),
    EventName,
    /// _event.data.<k>
    EventData(String),
    /// one of the _event standard fields: type, sendid, origin, origintype, invokeid
    EventField(String),
    SessionId,
    Name,
    Array(Vec<Expr>),
    /// literal source text whose evaluation is an error in every datamodel that evaluates expressions
    Bad(String),
}

#[derive(Clone, Debug, Serialize, Deserialize, PartialEq)]
pub enum Exec {
    /// <script>mark('<tag>', args...)</script>
    Mark(String, Vec<Expr>),
    Assign { loc: String, expr: Expr },
    Raise(String),
    If { arms: Vec<(Expr, Vec<Exec>)>, els: Option<Vec<Exec>> },
    Foreach { array: Expr, item: String, index: Option<String>, body: Vec<Exec> },
    Log(Expr),
    /// <script> with literal source whose execution is an error (e.g. a write to a read-only system variable with
    /// an operator of the expression language): error.execution, the rest of the block is skipped
    FailingScript(String),
    /// <send> through the SCXML processor. target: None = own external queue, Some("#_internal"), ...
    Send {
        event: String,
        target: Option<String>,
        delay_ms: u64,
        id: Option<String>,
        params: Vec<(String, Expr)>,
        /// spelling of the delay as written in the document (e.g. "1.5s"); None = "<delay_ms>ms"
        #[serde(default)]
        delay_text: Option<String>,
        /// render the delay as delayexpr="'<text>'"
        #[serde(default)]
        delay_expr: bool,
        /// idlocation instead of id: the generated id is stored in this variable
        #[serde(default)]
        idlocation: Option<String>,
    },
    Cancel {
        sendid: String,
        /// render as sendidexpr="<variable>"
        #[serde(default)]
        by_expr: Option<String>,
    },
}

#[derive(Clone, Debug, Serialize, Deserialize, PartialEq, Default)]
pub struct Trans {
    /// event descriptors as written ("a", "a.b", "*", "a.*"); empty = eventless
    pub events: Vec<String>,
    pub cond: Option<Expr>,
    pub targets: Vec<String>,
    pub internal: bool,
    pub content: Vec<Exec>,
    /// unique label (diagnostics)
    pub label: String,
}

#[derive(Clone, Debug, Serialize, Deserialize, PartialEq)]
pub enum Initial {
    /// default: first child in document order
    Default,
    Attr(Vec<String>),
    Elem { targets: Vec<String>, content: Vec<Exec> },
}

#[derive(Clone, Debug, Serialize, Deserialize, PartialEq)]
pub struct DataDecl {
    pub id: String,
    pub expr: Option<Expr>,
}

#[derive(Clone, Debug, Serialize, Deserialize, PartialEq)]
pub struct DoneData {
    pub params: Vec<(String, Expr)>,
}

#[derive(Clone, Debug, Serialize, Deserialize, PartialEq)]
pub struct Node {
    pub id: String,
    pub kind: Kind,
    pub children: Vec<Node>,
    pub initial: Initial,
    pub onentry: Vec<Vec<Exec>>,
    pub onexit: Vec<Vec<Exec>>,
    pub trans: Vec<Trans>,
    pub data: Vec<DataDecl>,
    #[serde(default)]
    pub donedata: Option<DoneData>,
    /// number of <invoke> elements of this state that cannot be started (their namelist names a location that
    /// does not exist): each raises error.execution when the macrostep that entered the state ends
    #[serde(default)]
    pub bad_invokes: u8,
}

impl Node {
    pub fn new(id: &str, kind: Kind) -> Node {
        Node { id: id.to_string(), kind, children: vec![], initial: Initial::Default, onentry: vec![], onexit: vec![], trans: vec![], data: vec![], donedata: None, bad_invokes: 0 }
    }
}

#[derive(Clone, Debug, Serialize, Deserialize, PartialEq)]
pub struct Doc {
    pub name: String,
    pub dm: Dm,
    pub late: bool,
    /// the <scxml> element: kind State, id "" (children = top-level states)
    pub root: Node,
}

impl Default for Doc {
    fn default() -> Self {
        Doc { name: "doc".into(), dm: Dm::Rfsm, late: false, root: Node::new("", Kind::State) }
    }
}

// ---------------------------------------------------------------------------------------------
// rendering

fn esc(s: &str) -> String {
    s.replace('&', "&amp;").replace('<', "&lt;").replace('>', "&gt;").replace('"', "&quot;")
}

pub fn render_expr(e: &Expr, dm: Dm) -> String {
    match e {
        Expr::Int(i) => {
            if *i < 0 {
                format!("(0 - {})", -i)
            } else {
                format!("{}", i)
            }
        }
        Expr::Str(s) => format!("'{}'", s),
        Expr::Bool(b) => format!("{}", b),
        Expr::Var(v) => v.clone(),
        Expr::Add(a, b) => format!("({} + {})", render_expr(a, dm), render_expr(b, dm)),
        Expr::Sub(a, b) => format!("({} - {})", render_expr(a, dm), render_expr(b, dm)),
        Expr::Eq(a, b) => format!("({} == {})", render_expr(a, dm), render_expr(b, dm)),
        Expr::Lt(a, b) => format!("({} < {})", render_expr(a, dm), render_expr(b, dm)),
        Expr::And(a, b) => match dm {
            Dm::Ecma => format!("({} && {})", render_expr(a, dm), render_expr(b, dm)),
            _ => format!("({} & {})", render_expr(a, dm), render_expr(b, dm)),
        },
        Expr::Not(a) => format!("!({})", render_expr(a, dm)),
        Expr::In(s) => format!("In('{}')", s),
        Expr::EventName => "_event.name".to_string(),
        Expr::EventData(k) => format!("_event.data.{}", k),
        Expr::EventField(k) => format!("_event.{}", k),
        Expr::SessionId => "_sessionid".to_string(),
        Expr::Name => "_name".to_string(),
        Expr::Array(v) => format!("[{}]", v.iter().map(|x| render_expr(x, dm)).collect::<Vec<_>>().join(", ")),
        Expr::Bad(s) => s.clone(),
    }
}

fn render_exec(out: &mut String, x: &Exec, dm: Dm, ind: usize) {
    let pad = " ".repeat(ind);
    match x {
        Exec::Mark(tag, args) => {
            let mut a = vec![format!("'{}'", tag)];
            a.extend(args.iter().map(|e| render_expr(e, dm)));
            out.push_str(&format!("{}<script>mark({})</script>\n", pad, esc(&a.join(", "))));
        }
        Exec::Assign { loc, expr } => out.push_str(&format!("{}<assign location=\"{}\" expr=\"{}\"/>\n", pad, esc(loc), esc(&render_expr(expr, dm)))),
        Exec::Raise(e) => out.push_str(&format!("{}<raise event=\"{}\"/>\n", pad, e)),
        Exec::If { arms, els } => {
            for (i, (c, body)) in arms.iter().enumerate() {
                if i == 0 {
                    out.push_str(&format!("{}<if cond=\"{}\">\n", pad, esc(&render_expr(c, dm))));
                } else {
                    out.push_str(&format!("{}<elseif cond=\"{}\"/>\n", pad, esc(&render_expr(c, dm))));
                }
                for b in body {
                    render_exec(out, b, dm, ind + 1);
                }
            }
            if let Some(e) = els {
                out.push_str(&format!("{}<else/>\n", pad));
                for b in e {
                    render_exec(out, b, dm, ind + 1);
                }
            }
            out.push_str(&format!("{}</if>\n", pad));
        }
        Exec::Foreach { array, item, index, body } => {
            out.push_str(&format!("{}<foreach array=\"{}\" item=\"{}\"", pad, esc(&render_expr(array, dm)), item));
            if let Some(i) = index {
                out.push_str(&format!(" index=\"{}\"", i));
            }
            out.push_str(">\n");
            for b in body {
                render_exec(out, b, dm, ind + 1);
            }
            out.push_str(&format!("{}</foreach>\n", pad));
        }
        Exec::Log(e) => out.push_str(&format!("{}<log expr=\"{}\"/>\n", pad, esc(&render_expr(e, dm)))),
        Exec::FailingScript(src) => out.push_str(&format!("{}<script>{}</script>\n", pad, esc(src))),
        Exec::Send { event, target, delay_ms, id, params, delay_text, delay_expr, idlocation } => {
            out.push_str(&format!("{}<send event=\"{}\"", pad, event));
            if let Some(t) = target {
                if let Some(var) = t.strip_prefix("@var:") {
                    // the target is the current value of a variable
                    out.push_str(&format!(" targetexpr=\"{}\"", var));
                } else {
                    out.push_str(&format!(" target=\"{}\"", esc(t)));
                }
            }
            if *delay_ms > 0 || delay_text.is_some() {
                let txt = delay_text.clone().unwrap_or_else(|| format!("{}ms", delay_ms));
                if *delay_expr {
                    out.push_str(&format!(" delayexpr=\"'{}'\"", txt));
                } else {
                    out.push_str(&format!(" delay=\"{}\"", txt));
                }
            }
            if let Some(l) = idlocation {
                out.push_str(&format!(" idlocation=\"{}\"", l));
            } else if let Some(i) = id {
                out.push_str(&format!(" id=\"{}\"", i));
            }
            if params.is_empty() {
                out.push_str("/>\n");
            } else {
                out.push_str(">");
                for (n, e) in params {
                    if n == "@content" {
                        // the payload is the value of an expression (<content expr>), not name/value pairs
                        out.push_str(&format!("<content expr=\"{}\"/>", esc(&render_expr(e, dm))));
                    } else if let (Some(name), Expr::Var(loc)) = (n.strip_prefix("@loc:"), e) {
                        // the value of a location (arrays and maps can be passed this way)
                        out.push_str(&format!("<param name=\"{}\" location=\"{}\"/>", name, loc));
                    } else {
                        out.push_str(&format!("<param name=\"{}\" expr=\"{}\"/>", n, esc(&render_expr(e, dm))));
                    }
                }
                out.push_str("</send>\n");
            }
        }
        Exec::Cancel { sendid, by_expr } => match by_expr {
            Some(v) => out.push_str(&format!("{}<cancel sendidexpr=\"{}\"/>\n", pad, v)),
            None => out.push_str(&format!("{}<cancel sendid=\"{}\"/>\n", pad, sendid)),
        },
    }
}

fn render_block(out: &mut String, tag: &str, body: &[Exec], dm: Dm, ind: usize) {
    let pad = " ".repeat(ind);
    out.push_str(&format!("{}<{}>\n", pad, tag));
    for x in body {
        render_exec(out, x, dm, ind + 1);
    }
    out.push_str(&format!("{}</{}>\n", pad, tag));
}

fn render_trans(out: &mut String, t: &Trans, dm: Dm, ind: usize) {
    let pad = " ".repeat(ind);
    out.push_str(&format!("{}<transition", pad));
    if !t.events.is_empty() {
        out.push_str(&format!(" event=\"{}\"", t.events.join(" ")));
    }
    if let Some(c) = &t.cond {
        out.push_str(&format!(" cond=\"{}\"", esc(&render_expr(c, dm))));
    }
    if !t.targets.is_empty() {
        out.push_str(&format!(" target=\"{}\"", t.targets.join(" ")));
    }
    if t.internal {
        out.push_str(" type=\"internal\"");
    }
    if t.content.is_empty() {
        out.push_str("/>\n");
    } else {
        out.push_str(">\n");
        for x in &t.content {
            render_exec(out, x, dm, ind + 1);
        }
        out.push_str(&format!("{}</transition>\n", pad));
    }
}

fn render_node(out: &mut String, n: &Node, dm: Dm, ind: usize) {
    let pad = " ".repeat(ind);
    let tag = match n.kind {
        Kind::State => "state",
        Kind::Parallel => "parallel",
        Kind::Final => "final",
        Kind::HistoryShallow | Kind::HistoryDeep => "history",
    };
    out.push_str(&format!("{}<{} id=\"{}\"", pad, tag, n.id));
    if n.kind == Kind::HistoryDeep {
        out.push_str(" type=\"deep\"");
    }
    if n.kind == Kind::HistoryShallow {
        out.push_str(" type=\"shallow\"");
    }
    if let Initial::Attr(t) = &n.initial {
        out.push_str(&format!(" initial=\"{}\"", t.join(" ")));
    }
    out.push_str(">\n");
    render_node_body(out, n, dm, ind + 1);
    out.push_str(&format!("{}</{}>\n", pad, tag));
}

fn render_node_body(out: &mut String, n: &Node, dm: Dm, ind: usize) {
    let pad = " ".repeat(ind);
    if !n.data.is_empty() {
        out.push_str(&format!("{}<datamodel>\n", pad));
        for d in &n.data {
            match &d.expr {
                Some(e) => out.push_str(&format!("{} <data id=\"{}\" expr=\"{}\"/>\n", pad, d.id, esc(&render_expr(e, dm)))),
                None => out.push_str(&format!("{} <data id=\"{}\"/>\n", pad, d.id)),
            }
        }
        out.push_str(&format!("{}</datamodel>\n", pad));
    }
    if let Initial::Elem { targets, content } = &n.initial {
        out.push_str(&format!("{}<initial>\n", pad));
        let t = Trans { targets: targets.clone(), content: content.clone(), ..Default::default() };
        render_trans(out, &t, dm, ind + 1);
        out.push_str(&format!("{}</initial>\n", pad));
    }
    for _ in 0..n.bad_invokes {
        out.push_str(&format!("{}<invoke type=\"scxml\" namelist=\"nosuchlocation\"><content><scxml xmlns=\"http://www.w3.org/2005/07/scxml\" version=\"1.0\" datamodel=\"null\" initial=\"k\"><final id=\"k\"/></scxml></content></invoke>\n", pad));
    }
    for b in &n.onentry {
        render_block(out, "onentry", b, dm, ind);
    }
    for b in &n.onexit {
        render_block(out, "onexit", b, dm, ind);
    }
    for t in &n.trans {
        render_trans(out, t, dm, ind);
    }
    if let Some(dd) = &n.donedata {
        out.push_str(&format!("{}<donedata>", pad));
        for (k, e) in &dd.params {
            out.push_str(&format!("<param name=\"{}\" expr=\"{}\"/>", k, esc(&render_expr(e, dm))));
        }
        out.push_str("</donedata>\n");
    }
    for c in &n.children {
        render_node(out, c, dm, ind);
    }
}

pub fn render(doc: &Doc) -> String {
    let mut out = String::new();
    let dm = match doc.dm {
        Dm::Null => "null",
        Dm::Rfsm => "rfsm-expression",
        Dm::Ecma => "ecmascript",
    };
    out.push_str(&format!("<scxml xmlns=\"http://www.w3.org/2005/07/scxml\" version=\"1.0\" datamodel=\"{}\" name=\"{}\"", dm, doc.name));
    if doc.late {
        out.push_str(" binding=\"late\"");
    }
    if let Initial::Attr(t) = &doc.root.initial {
        out.push_str(&format!(" initial=\"{}\"", t.join(" ")));
    }
    out.push_str(">\n");
    render_node_body(&mut out, &doc.root, doc.dm, 1);
    out.push_str("</scxml>\n");
    out
}

// ---------------------------------------------------------------------------------------------
// generation

/// What the generator may put into a document; each property sets its own profile.
#[derive(Clone, Debug)]
pub struct Profile {
    pub max_states: usize,
    pub max_depth: usize,
    pub parallel: u64,  // per-mille probability that a compound node is a parallel
    pub history: u64,   // per-mille probability that a compound/parallel parent gets a history child
    pub finals: u64,    // per-mille probability of a final child in a compound state
    pub content: u64,   // per-mille probability that a body gets (more) executable content
    pub guards: u64,    // per-mille probability of a guard on a transition
    pub eventless: u64, // per-mille probability that a transition is eventless (guarded by a counter)
    pub raise: u64,     // per-mille probability of <raise>/<send #_internal> in content
    pub errors: u64,    // per-mille probability of an erroring construct at a site that allows it
    pub multi_target: u64,
    pub internal: u64,
    pub targetless: u64,
    pub dm: Dm,
    pub late: bool,
    pub top_final: u64,
    pub selfsend: u64,
    pub if_foreach: u64,
    pub readonly_writes: u64,
    pub donedata: u64,
    /// per-mille probability that a (non-root) state declares a data element of its own
    pub state_data: u64,
    /// per-mille probability that the mark of an evented transition also records _event.type / sendid / origin / origintype / invokeid
    pub event_fields: u64,
    /// per-mille probability that a state holds an <invoke> that fails to start
    pub bad_invoke: u64,
}

impl Profile {
    pub fn structural(dm: Dm) -> Profile {
        Profile {
            max_states: 10,
            max_depth: 4,
            parallel: 300,
            history: 300,
            finals: 150,
            content: 500,
            guards: 300,
            eventless: 120,
            raise: 150,
            errors: 0,
            multi_target: 150,
            internal: 200,
            targetless: 120,
            dm,
            late: false,
            top_final: 200,
            selfsend: 0,
            if_foreach: 150,
            readonly_writes: 0,
            donedata: 0,
            state_data: 0,
            event_fields: 0,
            bad_invoke: 0,
        }
    }
}

pub const ALPHABET: &[&str] = &["a", "b", "c", "a.b", "a.b.c", "ab", "b.x"];

struct G<'a> {
    rng: &'a mut Rng,
    p: Profile,
    n: usize,
    tcount: usize,
    mcount: usize,
    vars: Vec<String>,
    /// ECMAScript + late binding: content may only read variables that are certainly bound where it runs
    /// (top-level ones and those of the state itself and its ancestors): reading an unbound variable is
    /// `undefined` arithmetic there, not an error
    scoped: bool,
    all_vars: Vec<String>,
    scope: Vec<String>,
    /// all state ids (for In() in content and marks)
    ids: Vec<String>,
    budget_var: usize,
}

impl<'a> G<'a> {
    fn pm(&mut self, permille: u64) -> bool {
        self.rng.below(1000) < permille
    }

    fn fresh_id(&mut self) -> String {
        self.n += 1;
        format!("s{}", self.n)
    }

    fn tree(&mut self, id: String, depth: usize, kind_hint: Option<Kind>) -> Node {
        let mut node = Node::new(&id, kind_hint.unwrap_or(Kind::State));
        if node.kind == Kind::Final || node.kind.is_history() {
            return node;
        }
        let room = self.p.max_states.saturating_sub(self.n);
        let want_children = depth < self.p.max_depth && room >= 2 && (depth == 0 || self.pm(if node.kind == Kind::Parallel { 900 } else { 450 }));
        if node.kind == Kind::Parallel && !want_children {
            node.kind = Kind::State;
        }
        if want_children {
            let k = if node.kind == Kind::Parallel { self.rng.range(2, 3) as usize } else { self.rng.range(1, 3) as usize };
            let k = k.min(room.max(1));
            for _ in 0..k {
                if self.n >= self.p.max_states {
                    break;
                }
                let cid = self.fresh_id();
                let ck = if node.kind != Kind::Parallel && depth + 1 < self.p.max_depth && self.pm(self.p.parallel) && self.p.max_states.saturating_sub(self.n) >= 3 {
                    Some(Kind::Parallel)
                } else {
                    None
                };
                let child = self.tree(cid, depth + 1, ck);
                node.children.push(child);
            }
            // a parallel needs at least two regions that are states
            if node.kind == Kind::Parallel && node.children.len() < 2 {
                node.kind = Kind::State;
            }
            // final child (not inside parallel directly: the reader forbids <final> in <parallel>)
            if node.kind == Kind::State && !node.children.is_empty() && self.pm(if depth == 0 { self.p.top_final } else { self.p.finals }) {
                let fid = self.fresh_id();
                node.children.push(Node::new(&fid, Kind::Final));
                // sometimes a second final child (a state can be "done" in more than one way), placed before
                // the other children half of the time so that finals are not always last in document order
                if self.rng.chance(1, 3) && self.n < self.p.max_states + 1 {
                    let fid = self.fresh_id();
                    let f2 = Node::new(&fid, Kind::Final);
                    if self.rng.chance(1, 2) {
                        node.children.insert(1.min(node.children.len()), f2);
                    } else {
                        node.children.push(f2);
                    }
                }
            }
        }
        node
    }

    fn add_histories(&mut self, node: &mut Node, depth: usize) {
        let real_children = node.children.iter().filter(|c| !c.kind.is_history()).count();
        // one history, sometimes a second one of the other type in the same parent
        let mut first_deep: Option<bool> = None;
        let rounds = if depth > 0 && real_children > 0 && self.pm(self.p.history) { if self.rng.chance(1, 4) { 2 } else { 1 } } else { 0 };
        for round in 0..rounds {
            let hid = format!("h{}", self.n + 1);
            self.n += 1;
            let deep = match first_deep {
                Some(d) => !d,
                None => self.pm(500),
            };
            if round == 0 {
                first_deep = Some(deep);
            }
            let mut h = Node::new(&hid, if deep { Kind::HistoryDeep } else { Kind::HistoryShallow });
            // default transition: legal targets (children for shallow, descendants for deep)
            let mut cands: Vec<String> = Vec::new();
            if node.kind == Kind::Parallel {
                // target the parallel's regions by default entry: pick one child (others completed by the algorithm)
                for c in node.children.iter().filter(|c| !c.kind.is_history()) {
                    cands.push(c.id.clone());
                }
            } else {
                for c in node.children.iter().filter(|c| !c.kind.is_history()) {
                    cands.push(c.id.clone());
                    if deep {
                        collect_descendants(c, &mut cands);
                    }
                }
            }
            let target = self.rng.pick(&cands).clone();
            let mut content = Vec::new();
            if self.p.dm != Dm::Null {
                content.push(self.mark("hd"));
            }
            h.trans.push(Trans { events: vec![], cond: None, targets: vec![target], internal: false, content, label: format!("{}.default", hid) });
            // histories are rendered first among the children sometimes, last otherwise
            if self.pm(500) {
                node.children.insert(0, h);
            } else {
                node.children.push(h);
            }
        }
        for c in node.children.iter_mut() {
            if !c.kind.is_history() {
                self.add_histories(c, depth + 1);
            }
        }
    }

    fn mark(&mut self, what: &str) -> Exec {
        self.mcount += 1;
        let tag = format!("{}{}", what, self.mcount);
        let mut args = Vec::new();
        if !self.vars.is_empty() && self.rng.chance(1, 3) {
            let v = self.rng.pick(&self.vars).clone();
            args.push(Expr::Var(v));
        }
        // In() evaluated inside content: the state being entered is already active in its own onentry, the state
        // being exited still is in its own onexit
        if self.p.event_fields > 0 && !self.ids.is_empty() && self.rng.chance(1, 3) {
            let id = self.rng.pick(&self.ids).clone();
            args.push(Expr::In(id));
        }
        Exec::Mark(tag, args)
    }

    fn budgeted(&mut self, inner: Exec) -> Exec {
        Exec::If {
            arms: vec![(
                Expr::Lt(Box::new(Expr::Int(0)), Box::new(Expr::Var("budget".into()))),
                vec![Exec::Assign { loc: "budget".into(), expr: Expr::Sub(Box::new(Expr::Var("budget".into())), Box::new(Expr::Int(1))) }, inner],
            )],
            els: None,
        }
    }

    fn int_expr(&mut self) -> Expr {
        match self.rng.below(4) {
            0 => Expr::Int(self.rng.below(5) as i64),
            1 if !self.vars.is_empty() => Expr::Var(self.rng.pick(&self.vars).clone()),
            2 if !self.vars.is_empty() => Expr::Add(Box::new(Expr::Var(self.rng.pick(&self.vars).clone())), Box::new(Expr::Int(1 + self.rng.below(3) as i64))),
            _ => Expr::Int(self.rng.below(4) as i64),
        }
    }

    fn guard(&mut self, ids: &[String]) -> Expr {
        if self.p.dm == Dm::Null {
            // the null datamodel knows In() only
            return Expr::In(self.rng.pick(ids).clone());
        }
        match self.rng.below(5) {
            0 | 1 => Expr::In(self.rng.pick(ids).clone()),
            2 => Expr::Not(Box::new(Expr::In(self.rng.pick(ids).clone()))),
            3 if !self.vars.is_empty() && self.p.dm != Dm::Null => Expr::Lt(Box::new(Expr::Var(self.rng.pick(&self.vars).clone())), Box::new(Expr::Int(1 + self.rng.below(4) as i64))),
            4 if !self.vars.is_empty() && self.p.dm != Dm::Null => Expr::Eq(Box::new(Expr::Var(self.rng.pick(&self.vars).clone())), Box::new(Expr::Int(self.rng.below(3) as i64))),
            _ => Expr::In(self.rng.pick(ids).clone()),
        }
    }

    fn bad_expr(&mut self) -> Expr {
        match self.rng.below(3) {
            0 => Expr::Bad("nosuchvar + 1".into()),
            1 => Expr::Bad("nosuch.member".into()),
            _ => Expr::Bad("1 +".into()),
        }
    }

    fn content(&mut self, depth: usize, max_items: usize) -> Vec<Exec> {
        let mut out = Vec::new();
        if self.p.dm == Dm::Null {
            return out;
        }
        let n = self.rng.below(max_items as u64 + 1) as usize;
        for _ in 0..n {
            // weighted choice of the next item
            let w = [300u64, if self.vars.is_empty() { 0 } else { 200 }, self.p.raise, if depth < 2 { self.p.if_foreach } else { 0 }, self.p.selfsend, self.p.readonly_writes, 100];
            let total: u64 = w.iter().sum();
            let mut r = self.rng.below(total);
            let mut choice = 0;
            for (i, x) in w.iter().enumerate() {
                if r < *x {
                    choice = i;
                    break;
                }
                r -= x;
            }
            let x = match choice {
                0 => self.mark("m"),
                1 => {
                    let v = self.rng.pick(&self.vars).clone();
                    if v == "budget" {
                        self.mark("m")
                    } else {
                        let mut e = if self.pm(self.p.errors) { self.bad_expr() } else { self.int_expr() };
                        if e == Expr::Var(v.clone()) {
                            // `x = x` makes rfsm-expression lock the same value twice (C12's business, F-alias)
                            e = Expr::Add(Box::new(Expr::Var(v.clone())), Box::new(Expr::Int(1)));
                        }
                        Exec::Assign { loc: v, expr: e }
                    }
                }
                2 => {
                    // every raised event consumes the strictly decreasing budget: raise chains terminate
                    let inner = if self.rng.chance(1, 2) {
                        Exec::Raise(format!("r.{}", self.rng.pick(ALPHABET)))
                    } else {
                        Exec::Send { event: format!("r.{}", self.rng.pick(ALPHABET)), target: Some("#_internal".into()), delay_ms: 0, id: None, params: vec![], delay_text: None, delay_expr: false, idlocation: None }
                    };
                    self.budgeted(inner)
                }
                3 => {
                    if self.rng.chance(2, 3) {
                        let narms = self.rng.range(1, 3) as usize;
                        let mut arms = Vec::new();
                        for _ in 0..narms {
                            let c = if self.pm(self.p.errors) {
                                self.bad_expr()
                            } else if self.p.event_fields > 0 && !self.ids.is_empty() && self.rng.chance(1, 3) {
                                let id = self.rng.pick(&self.ids).clone();
                                if self.rng.chance(1, 3) {
                                    Expr::Not(Box::new(Expr::In(id)))
                                } else {
                                    Expr::In(id)
                                }
                            } else if self.rng.chance(1, 6) {
                                // the condition is a value, not a comparison: a collection counts as true also when
                                // it is empty
                                Expr::Var("q".into())
                            } else if !self.vars.is_empty() {
                                Expr::Lt(Box::new(Expr::Var(self.rng.pick(&self.vars).clone())), Box::new(Expr::Int(self.rng.below(4) as i64)))
                            } else {
                                Expr::Bool(self.rng.chance(1, 2))
                            };
                            let mut body = vec![self.mark("if")];
                            body.extend(self.content(depth + 1, 2));
                            arms.push((c, body));
                        }
                        let els = if self.rng.chance(1, 2) {
                            let mut b = vec![self.mark("else")];
                            b.extend(self.content(depth + 1, 1));
                            Some(b)
                        } else {
                            None
                        };
                        Exec::If { arms, els }
                    } else {
                        let items: Vec<Expr> = (0..self.rng.below(4)).map(|_| Expr::Int(self.rng.below(9) as i64)).collect();
                        let arr = if self.pm(self.p.errors) {
                            match self.rng.below(4) {
                                0 => Expr::Int(7),
                                // not a collection either, and "empty" in the sense of rfsm-expression
                                1 if self.p.dm == Dm::Rfsm => Expr::Str(String::new()),
                                1 => Expr::Int(0),
                                _ => self.bad_expr(),
                            }
                        } else {
                            Expr::Array(items)
                        };
                        self.mcount += 1;
                        let tag = format!("fe{}", self.mcount);
                        let mut body = vec![Exec::Mark(tag, vec![Expr::Var("it".into()), Expr::Var("ix".into())])];
                        // the array lives in the data model and the body replaces it while the loop runs: the loop
                        // iterates over (a shallow copy of) the value the array had when the <foreach> started
                        let live = matches!(arr, Expr::Array(_)) && self.rng.chance(1, 3);
                        if live {
                            let repl: Vec<Expr> = (0..self.rng.below(4)).map(|_| Expr::Int(10 + self.rng.below(9) as i64)).collect();
                            let change = Exec::Assign { loc: "q".into(), expr: Expr::Array(repl) };
                            if self.rng.chance(1, 2) {
                                body.push(change);
                            } else {
                                // only in one of the iterations
                                let k = self.rng.below(3) as i64;
                                body.push(Exec::If { arms: vec![(Expr::Eq(Box::new(Expr::Var("ix".into())), Box::new(Expr::Int(k))), vec![change])], els: None });
                            }
                        }
                        body.extend(self.content(depth + 1, 1));
                        // the item variable is one that only <foreach> declares (also when the array is empty): it
                        // can be assigned afterwards
                        if !live && self.p.dm == Dm::Rfsm && matches!(arr, Expr::Array(_)) && self.rng.chance(1, 5) {
                            self.mcount += 1;
                            let tag2 = format!("fj{}", self.mcount);
                            out.push(Exec::Foreach { array: arr, item: "jt".into(), index: Some("ix".into()), body });
                            out.push(Exec::Assign { loc: "jt".into(), expr: Expr::Int(7) });
                            Exec::Mark(tag2, vec![Expr::Var("jt".into())])
                        } else if live {
                            out.push(Exec::Assign { loc: "q".into(), expr: arr });
                            // the item variable is a copy: assigning to it leaves the array alone (seen after the loop)
                            if self.rng.chance(1, 2) {
                                body.push(Exec::Assign { loc: "it".into(), expr: Expr::Add(Box::new(Expr::Var("it".into())), Box::new(Expr::Int(100))) });
                            }
                            out.push(Exec::Foreach { array: Expr::Var("q".into()), item: "it".into(), index: Some("ix".into()), body });
                            self.mcount += 1;
                            Exec::Mark(format!("fq{}", self.mcount), vec![Expr::Var("q".into()), Expr::Var("it".into())])
                        } else {
                            Exec::Foreach { array: arr, item: "it".into(), index: Some("ix".into()), body }
                        }
                    }
                }
                4 => {
                    let inner = Exec::Send { event: format!("x.{}", self.rng.pick(ALPHABET)), target: None, delay_ms: 0, id: None, params: vec![], delay_text: None, delay_expr: false, idlocation: None };
                    self.budgeted(inner)
                }
                5 => {
                    let loc = ["_sessionid", "_name", "_event", "_ioprocessors", "_event.name", "_event.type", "_event.data"];
                    if self.p.dm == Dm::Rfsm && self.rng.chance(1, 5) {
                        // the "assign if undefined" operator of rfsm-expression inside a <script>: it may create a
                        // location, it may not write to a system variable
                        let sys = *self.rng.pick(&["_sessionid", "_name", "_ioprocessors"]);
                        Exec::FailingScript(format!("{} ?= 99", sys))
                    } else if self.rng.chance(1, 4) {
                        // a system variable as the item (or index) of a <foreach>: not a legal location either
                        // (not _event: before the first event it is not bound yet, what a write does then is nobody's business)
                        let sys = *self.rng.pick(&["_sessionid", "_name", "_ioprocessors"]);
                        self.mcount += 1;
                        let body = vec![Exec::Mark(format!("fs{}", self.mcount), vec![])];
                        let items = vec![Expr::Int(1), Expr::Int(2)];
                        if self.rng.chance(1, 3) {
                            Exec::Foreach { array: Expr::Array(if self.rng.chance(1, 3) { vec![] } else { items }), item: "it".into(), index: Some(sys.to_string()), body }
                        } else {
                            Exec::Foreach { array: Expr::Array(if self.rng.chance(1, 3) { vec![] } else { items }), item: sys.to_string(), index: Some("ix".into()), body }
                        }
                    } else {
                        Exec::Assign { loc: self.rng.pick(&loc[..]).to_string(), expr: Expr::Int(99) }
                    }
                }
                _ => {
                    if self.pm(self.p.errors) {
                        Exec::Log(self.bad_expr())
                    } else {
                        Exec::Log(Expr::Str("l".into()))
                    }
                }
            };
            out.push(x);
        }
        out
    }

    fn decorate(&mut self, node: &mut Node, all_ids: &[String], ancestors: &[String], depth: usize) {
        if node.kind.is_history() {
            return;
        }
        let dm = self.p.dm;
        let pushed = node.data.len();
        if self.scoped {
            if depth == 0 {
                self.all_vars = self.vars.clone();
            }
            for d in &node.data {
                self.scope.push(d.id.clone());
            }
            let scope = self.scope.clone();
            self.vars = self.all_vars.iter().filter(|v| !v.starts_with('w') || scope.contains(v)).cloned().collect();
        }
        // onentry / onexit
        if depth > 0 {
            let nb = if self.pm(self.p.content) { self.rng.range(1, 2) } else { 0 };
            for _ in 0..nb {
                let mut b = if dm != Dm::Null { vec![self.mark("en")] } else { vec![] };
                b.extend(self.content(0, 3));
                node.onentry.push(b);
            }
            let nb = if self.pm(self.p.content) { self.rng.range(1, 2) } else { 0 };
            for _ in 0..nb {
                let mut b = if dm != Dm::Null { vec![self.mark("ex")] } else { vec![] };
                b.extend(self.content(0, 2));
                node.onexit.push(b);
            }
        }
        if depth > 0 && node.kind != Kind::Final && dm != Dm::Null && self.pm(self.p.bad_invoke) {
            node.bad_invokes = if self.rng.chance(1, 4) { 2 } else { 1 };
        }
        // initial
        let real: Vec<String> = node.children.iter().filter(|c| !c.kind.is_history()).map(|c| c.id.clone()).collect();
        if node.kind == Kind::State && !real.is_empty() {
            match self.rng.below(4) {
                0 => {}
                1 => {
                    let t = self.legal_initial(node);
                    node.initial = Initial::Attr(t);
                }
                _ => {
                    let t = self.legal_initial(node);
                    if depth == 0 {
                        node.initial = Initial::Attr(t);
                    } else {
                        let mut c = if dm != Dm::Null { vec![self.mark("ini")] } else { vec![] };
                        c.extend(self.content(0, 1));
                        node.initial = Initial::Elem { targets: t, content: c };
                    }
                }
            }
        }
        // transitions
        if depth > 0 && node.kind != Kind::Final {
            let nt = self.rng.below(4) as usize;
            for _ in 0..nt {
                let t = self.transition(node, all_ids, ancestors);
                node.trans.push(t);
            }
        }
        if node.kind == Kind::Final && depth > 1 && self.pm(self.p.donedata) && dm != Dm::Null {
            let e = self.int_expr();
            // half of the time the final state's own onentry changes what the donedata reads: the data of
            // done.state.<parent> are evaluated after the onentry content has run
            let read_var: Option<String> = match &e {
                Expr::Var(v) => Some(v.clone()),
                Expr::Add(a, _) => match a.as_ref() {
                    Expr::Var(v) => Some(v.clone()),
                    _ => None,
                },
                _ => None,
            };
            if let Some(v) = read_var {
                if v != "budget" && self.rng.chance(1, 2) {
                    let bump = Exec::Assign { loc: v.clone(), expr: Expr::Add(Box::new(Expr::Var(v)), Box::new(Expr::Int(3))) };
                    let tag = self.mark("fin");
                    node.onentry.push(vec![tag, bump]);
                }
            }
            node.donedata = Some(DoneData { params: vec![("v".into(), e)] });
        }
        let mut anc = ancestors.to_vec();
        if depth > 0 {
            anc.push(node.id.clone());
        }
        // cannot borrow node.children mutably while calling self methods that need node: take them out
        let mut children = std::mem::take(&mut node.children);
        for c in children.iter_mut() {
            self.decorate(c, all_ids, &anc, depth + 1);
        }
        node.children = children;
        if self.scoped {
            for _ in 0..pushed {
                self.scope.pop();
            }
            if depth == 0 {
                self.vars = self.all_vars.clone();
            }
        }
    }

    fn legal_initial(&mut self, node: &Node) -> Vec<String> {
        // a descendant; if it lies inside a parallel, optionally one target per region
        let mut cands = Vec::new();
        for c in node.children.iter().filter(|c| !c.kind.is_history()) {
            cands.push(c.id.clone());
            if self.rng.chance(1, 3) {
                collect_descendants(c, &mut cands);
            }
        }
        // a compound state may also name its own history pseudo-state as initial target: entering the state by
        // default then goes through the history (its default transition with its content the first time, the
        // recorded configuration later)
        let hist: Vec<String> = node.children.iter().filter(|c| c.kind.is_history()).map(|c| c.id.clone()).collect();
        if !hist.is_empty() && self.rng.chance(1, 3) {
            return vec![self.rng.pick(&hist).clone()];
        }
        // several targets: one per region (for two or more regions) of a <parallel> below the state; the regions
        // that are not named are entered by default, the named ones exactly at the named states
        if self.rng.chance(2, 3) {
            fn parallels<'n>(n: &'n Node, depth: usize, out: &mut Vec<&'n Node>) {
                for c in n.children.iter().filter(|c| !c.kind.is_history()) {
                    if c.kind == Kind::Parallel {
                        out.push(c);
                    }
                    if depth < 2 {
                        parallels(c, depth + 1, out);
                    }
                }
            }
            let mut ps: Vec<&Node> = Vec::new();
            parallels(node, 0, &mut ps);
            if !ps.is_empty() {
                let par = *self.rng.pick(&ps);
                let mut targets = Vec::new();
                for region in par.children.iter().filter(|c| !c.kind.is_history()) {
                    if self.rng.chance(3, 4) {
                        let mut c = vec![region.id.clone()];
                        collect_descendants(region, &mut c);
                        // prefer a state that is not what default entry would give: the last ones are the deepest / latest
                        let k = if self.rng.chance(1, 2) { c.len() - 1 - self.rng.below(c.len().min(2) as u64) as usize } else { self.rng.below(c.len() as u64) as usize };
                        targets.push(c[k].clone());
                    }
                }
                if targets.len() >= 2 {
                    if self.rng.chance(1, 4) {
                        targets.reverse();
                    }
                    return targets;
                }
            }
        }
        vec![self.rng.pick(&cands).clone()]
    }

    fn transition(&mut self, node: &Node, all_ids: &[String], _ancestors: &[String]) -> Trans {
        self.tcount += 1;
        let label = format!("t{}", self.tcount);
        let mut t = Trans { label: label.clone(), ..Default::default() };
        let eventless = self.p.dm != Dm::Null && self.pm(self.p.eventless);
        if eventless {
            // guarded by the strictly decreasing budget so that eventless chains terminate
            t.cond = Some(Expr::Lt(Box::new(Expr::Int(0)), Box::new(Expr::Var("budget".into()))));
            // some eventless transitions have a second condition of their own: those of a descendant may be
            // disabled while the one of an ancestor is enabled
            let own: Vec<String> = self.vars.iter().filter(|v| *v != "budget").cloned().collect();
            if !own.is_empty() && self.rng.chance(1, 3) {
                let extra = Expr::Lt(Box::new(Expr::Var(self.rng.pick(&own).clone())), Box::new(Expr::Int(self.rng.below(3) as i64)));
                t.cond = Some(Expr::And(Box::new(t.cond.take().unwrap()), Box::new(extra)));
            }
            t.content.push(Exec::Assign { loc: "budget".into(), expr: Expr::Sub(Box::new(Expr::Var("budget".into())), Box::new(Expr::Int(1))) });
            self.budget_var += 1;
        } else {
            let ne = self.rng.range(1, 2) as usize;
            for _ in 0..ne {
                let mut d = self.rng.pick(ALPHABET).to_string();
                match self.rng.below(12) {
                    0 => d.push_str(".*"),
                    1 => d.push('.'),
                    2 if self.p.errors == 0 && self.p.readonly_writes == 0 => d = "*".to_string(),
                    3 => d = format!("r.{}", d),
                    4 => d = "done.state".to_string(),
                    5 if self.p.errors == 0 && self.p.readonly_writes == 0 => d = "error".to_string(),
                    _ => {}
                }
                if !t.events.contains(&d) {
                    t.events.push(d);
                }
            }
            if self.pm(self.p.guards) {
                let g = if self.pm(self.p.errors) {
                    self.bad_expr()
                } else if self.p.dm != Dm::Null && self.pm(self.p.event_fields) && self.rng.chance(1, 3) {
                    // a guard that reads _event during selection: it must see the event being processed
                    match self.rng.below(3) {
                        0 => {
                            let d = t.events[0].trim_end_matches(".*").trim_end_matches('.').to_string();
                            Expr::Eq(Box::new(Expr::EventName), Box::new(Expr::Str(d)))
                        }
                        1 => Expr::Eq(Box::new(Expr::EventField("type".into())), Box::new(Expr::Str(self.rng.pick(&["internal", "external", "platform"]).to_string()))),
                        _ => Expr::Not(Box::new(Expr::Eq(Box::new(Expr::EventName), Box::new(Expr::Str(self.rng.pick(ALPHABET).to_string()))))),
                    }
                } else {
                    self.guard(all_ids)
                };
                t.cond = Some(g);
            }
        }
        if !self.pm(self.p.targetless) {
            let multi = self.pm(self.p.multi_target);
            let first = self.rng.pick(all_ids).clone();
            t.targets.push(first);
            if multi {
                // a second target only makes a legal specification if both lie in different regions of a
                // parallel; the legality filter below rejects everything else
                let second = self.rng.pick(all_ids).clone();
                if !t.targets.contains(&second) {
                    t.targets.push(second);
                }
            }
            t.internal = self.pm(self.p.internal);
        }
        if self.p.dm != Dm::Null {
            // ECMAScript: `_event` is unbound until the first event; `_event.name` in an eventless transition
            // taken at start-up throws there (legitimately), so the mark carries no argument
            let args = if eventless && self.p.dm == Dm::Ecma {
                vec![]
            } else if !eventless && self.pm(self.p.event_fields) {
                // the standard fields of _event as the transition's content sees them
                vec![Expr::EventName, Expr::EventField("type".into()), Expr::EventField("sendid".into()), Expr::EventField("origin".into()), Expr::EventField("origintype".into()), Expr::EventField("invokeid".into())]
            } else {
                vec![Expr::EventName]
            };
            t.content.insert(0, Exec::Mark(label, args));
            let extra = self.content(0, 2);
            t.content.extend(extra);
        }
        let _ = node;
        t
    }
}

fn assign_state_data(g: &mut G, n: &mut Node, depth: usize) {
    if n.kind.is_history() {
        return;
    }
    if depth > 0 && n.kind != Kind::Final && g.p.dm != Dm::Null && g.pm(g.p.state_data) {
        let id = format!("w{}", g.vars.len());
        let init = g.rng.below(4) as i64 + 10;
        n.data.push(DataDecl { id: id.clone(), expr: Some(Expr::Int(init)) });
        g.vars.push(id);
    }
    for c in n.children.iter_mut() {
        assign_state_data(g, c, depth + 1);
    }
}

fn collect_descendants(n: &Node, out: &mut Vec<String>) {
    for c in n.children.iter().filter(|c| !c.kind.is_history()) {
        out.push(c.id.clone());
        collect_descendants(c, out);
    }
}

pub fn all_state_ids(n: &Node, out: &mut Vec<String>, include_history: bool) {
    for c in &n.children {
        if c.kind.is_history() {
            if include_history {
                out.push(c.id.clone());
            }
        } else {
            out.push(c.id.clone());
            all_state_ids(c, out, include_history);
        }
    }
}

/// Generate a conformant document. Legality of target sets (multi-targets, history defaults) is
/// enforced by `crate::refsm::Model::validate`, the caller retries on rejection.
pub fn generate(rng: &mut Rng, p: &Profile, name: &str) -> Doc {
    let mut g = G { rng, p: p.clone(), n: 0, tcount: 0, mcount: 0, vars: vec![], budget_var: 0, scoped: p.dm == Dm::Ecma && p.late, all_vars: vec![], scope: vec![], ids: vec![] };
    let mut root = g.tree(String::new(), 0, None);
    if root.children.iter().filter(|c| c.kind != Kind::Final).count() == 0 {
        let id = g.fresh_id();
        root.children.insert(0, Node::new(&id, Kind::State));
    }
    // now and then a compound state that holds a <parallel> whose regions have children of their own: the shape
    // that initial transitions with one target per region (and transitions into / out of nested regions) need,
    // which the size-bounded random tree produces only rarely
    if p.parallel > 0 && g.rng.chance(1, 6) {
        let mut host = Node::new(&g.fresh_id(), Kind::State);
        let mut par = Node::new(&g.fresh_id(), Kind::Parallel);
        for _ in 0..g.rng.range(2, 3) {
            let mut region = Node::new(&g.fresh_id(), Kind::State);
            for _ in 0..g.rng.range(2, 3) {
                let id = g.fresh_id();
                region.children.push(Node::new(&id, Kind::State));
            }
            par.children.push(region);
        }
        if g.rng.chance(1, 2) {
            let id = g.fresh_id();
            host.children.push(Node::new(&id, Kind::State));
        }
        host.children.push(par);
        let pos = g.rng.below(root.children.len() as u64 + 1) as usize;
        root.children.insert(pos, host);
    }
    g.add_histories(&mut root, 0);
    if p.dm != Dm::Null {
        let nv = g.rng.range(1, 3) as usize;
        for k in 0..nv {
            g.vars.push(format!("v{}", k));
        }
        g.vars.push("budget".into());
        // a data element whose initial value is a system variable: they are bound before the data model is
        // initialised
        // (rfsm-expression only: the ECMAScript binding hands out _sessionid as a BigInt, which cannot be mixed
        // with the numbers of the generated arithmetic)
        if p.event_fields > 0 && !p.late && p.dm == Dm::Rfsm {
            g.vars.push("sid0".into());
        }
    }
    assign_state_data(&mut g, &mut root, 0);
    let mut ids = Vec::new();
    all_state_ids(&root, &mut ids, true);
    g.ids = ids.iter().filter(|i| !i.starts_with('h')).cloned().collect();
    g.decorate(&mut root, &ids, &[], 0);
    // data declarations: top level (early: with values; late: top-level without values, see DESIGN 4.1)
    let late = p.late;
    let mut decls = Vec::new();
    for v in g.vars.clone() {
        if v.starts_with('w') {
            continue;
        }
        let init = if v == "budget" {
            Expr::Int(2 + g.rng.below(3) as i64)
        } else if v == "sid0" {
            Expr::SessionId
        } else {
            Expr::Int(g.rng.below(3) as i64)
        };
        decls.push(DataDecl { id: v, expr: Some(init) });
    }
    if p.dm != Dm::Null {
        decls.push(DataDecl { id: "it".into(), expr: Some(Expr::Int(0)) });
        decls.push(DataDecl { id: "ix".into(), expr: Some(Expr::Int(0)) });
        decls.push(DataDecl { id: "q".into(), expr: Some(Expr::Array(vec![])) });
    }
    root.data = decls;
    if late {
        // don't-care avoided: <scxml initial=...> together with late binding and top-level data
        if let Initial::Attr(_) = root.initial {
            root.initial = Initial::Default;
        }
    }
    // ping -> pong in every top-level non-final state is added by the scenario templates where needed
    Doc { name: name.to_string(), dm: p.dm, late, root }
}
