//! Real trace extraction (from the recorded history of one session) and comparison with the
//! reference interpreter's prediction.

use crate::engine::RunView;
use crate::gen::Doc;
use crate::refsm::{EvIn, Interp, Model, Obs, Quirks, Val};
use rfsm_verif_seams::rec::{EvDesc, RecKind};
use std::collections::{BTreeMap, BTreeSet};

fn is_root_name(n: &str) -> bool {
    n.starts_with("__id")
}

fn unquote(s: &str) -> String {
    s.trim_matches('\'').to_string()
}

fn parse_val(s: &str) -> Val {
    if let Ok(i) = s.parse::<i64>() {
        Val::Int(i)
    } else if s == "true" {
        Val::Bool(true)
    } else if s == "false" {
        Val::Bool(false)
    } else if s == "null" {
        Val::Null
    } else if s.starts_with('\'') {
        Val::Str(unquote(s))
    } else {
        Val::Str(s.to_string())
    }
}

pub fn evin_of(e: &EvDesc) -> EvIn {
    EvIn {
        name: e.name.clone(),
        etype: e.etype.clone(),
        sendid: e.sendid.clone(),
        origin: e.origin.clone(),
        origintype: e.origintype.clone(),
        invokeid: e.invokeid.clone(),
        params: e.params.as_ref().map(|p| p.iter().map(|(k, v)| (k.clone(), parse_val(v))).collect()),
        content: e.content.as_ref().map(|c| parse_val(c)),
    }
}

pub struct RealTrace {
    pub obs: Vec<Obs>,
    /// global sequence number of each observation (for messages)
    pub seqs: Vec<u64>,
    /// external events in dequeue order, with all fields
    pub inputs: Vec<EvIn>,
    pub id_names: BTreeMap<u32, String>,
    pub ended: bool,
    /// (state ids of) configuration snapshots together with their position, for the legality checker
    pub snapshots: Vec<(u64, &'static str, Vec<u32>)>,
}

pub fn real_trace(v: &RunView, sid: u32) -> RealTrace {
    let own_chan = v.rec.session_chan.get(&sid).copied();
    let own_task = v.rec.session_task.get(&sid).copied();
    let chan_session: BTreeMap<usize, u32> = v.rec.session_chan.iter().map(|(s, c)| (*c, *s)).collect();
    let mut id_names: BTreeMap<u32, String> = BTreeMap::new();
    for r in v.log.iter().filter(|r| r.session == sid) {
        if let RecKind::Enter { state, name } | RecKind::Exit { state, name } = &r.kind {
            id_names.insert(*state, name.clone());
        }
    }
    let names = |ids: &Vec<u32>| -> BTreeSet<String> { ids.iter().filter_map(|i| id_names.get(i)).filter(|n| !is_root_name(n)).cloned().collect() };
    let mut t = RealTrace { obs: vec![], seqs: vec![], inputs: vec![], id_names: id_names.clone(), ended: false, snapshots: vec![] };
    // delayed sends: item -> event name (known once the timer fired and the processor sent it)
    let mut item_event: BTreeMap<u64, EvDesc> = BTreeMap::new();
    {
        let mut firing: BTreeMap<usize, u64> = BTreeMap::new(); // timer task -> item
        for r in v.log {
            match &r.kind {
                RecKind::TimerFire { item } => {
                    firing.insert(r.task, *item);
                }
                RecKind::TimerFireDone { .. } => {
                    firing.remove(&r.task);
                }
                RecKind::Send { ev, .. } => {
                    if let Some(item) = firing.get(&r.task) {
                        if let Some(e) = ev {
                            item_event.entry(*item).or_insert_with(|| e.clone());
                        }
                    }
                }
                _ => {}
            }
        }
    }
    for r in v.log.iter().filter(|r| r.session == sid) {
        let o: Option<Obs> = match &r.kind {
            RecKind::Enter { name, .. } => {
                if is_root_name(name) {
                    None
                } else {
                    Some(Obs::Enter(name.clone()))
                }
            }
            RecKind::Exit { name, .. } => {
                if is_root_name(name) {
                    None
                } else {
                    Some(Obs::Exit(name.clone()))
                }
            }
            RecKind::Mark { args, config } => {
                let tag = args.first().map(|s| unquote(s)).unwrap_or_default();
                let mut rest: Vec<String> = args.iter().skip(1).map(|a| if a.starts_with("Error") { "<error>".to_string() } else { a.clone() }).collect();
                // transition marks that record the standard _event fields (name, type, sendid, origin, origintype,
                // invokeid): a field the event does not have is "blank" - null in one data model, undefined in another
                if rest.len() == 6 && tag.starts_with('t') {
                    for a in rest.iter_mut().skip(2) {
                        if a == "<none>" {
                            *a = "null".to_string();
                        }
                    }
                }
                Some(Obs::Mark { tag, args: rest, config: names(config) })
            }
            RecKind::IntRecv { ev } => Some(Obs::IntRecv(ev.name.clone())),
            RecKind::ExtRecv { ev } => {
                t.inputs.push(evin_of(ev));
                Some(Obs::ExtRecv(ev.name.clone()))
            }
            RecKind::IntSend { ev } => Some(Obs::IntSend(match &ev.params {
                Some(p) if !p.is_empty() => format!("{}{{{}}}", ev.name, p.iter().map(|(k, v)| format!("{}={}", k, v)).collect::<Vec<_>>().join(";")),
                _ => ev.name.clone(),
            })),
            RecKind::Enabled { tids } => Some(Obs::Enabled(tids.len())),
            RecKind::Method { name: "externalQueue.dequeue", enter: true } => Some(Obs::Idle),
            RecKind::Send { chan, ev, .. } if Some(r.task) == own_task => {
                let target = if Some(*chan) == own_chan { String::new() } else { chan_session.get(chan).map(|s| format!("#_scxml_{}", s)).unwrap_or_else(|| format!("chan{}", chan)) };
                Some(Obs::Sent {
                    event: ev.as_ref().map(|e| e.name.clone()).unwrap_or_default(),
                    target,
                    delay_ms: 0,
                    sendid: ev.as_ref().and_then(|e| e.sendid.clone()),
                    params: ev.as_ref().and_then(payload_of),
                })
            }
            RecKind::TimerSched { item, delay, .. } => match item_event.get(item) {
                Some(e) => Some(Obs::Sent { event: e.name.clone(), target: "?".into(), delay_ms: (*delay).max(0) as u64, sendid: e.sendid.clone(), params: payload_of(e) }),
                None => Some(Obs::Sent { event: "?".into(), target: "?".into(), delay_ms: (*delay).max(0) as u64, sendid: Some("?".into()), params: Some(vec![("?".into(), "?".into())]) }),
            },
            RecKind::Snapshot { at, config, .. } => {
                t.snapshots.push((r.seq, at, config.clone()));
                if *at == "microstep" || *at == "startup" {
                    Some(Obs::Config(names(config)))
                } else {
                    None
                }
            }
            RecKind::SessionEnd { .. } => {
                t.ended = true;
                Some(Obs::End)
            }
            _ => None,
        };
        if let Some(o) = o {
            t.obs.push(o);
            t.seqs.push(r.seq);
        }
    }
    t
}

/// Run the reference on the inputs the real session consumed.
pub struct Prediction {
    pub obs: Vec<Obs>,
    pub diverged: bool,
    pub micro_info: Vec<(usize, bool)>,
    pub quirk_hits: Vec<&'static str>,
    pub term_start: Option<usize>,
}

pub fn predict_full(doc: &Doc, sid: u32, inputs: &[EvIn], quirks: &Quirks) -> Prediction {
    let m = Model::new(doc);
    let mut it = Interp::new(&m, sid);
    it.quirks = quirks.clone();
    it.start();
    for ev in inputs {
        if it.diverged {
            break;
        }
        it.external(ev.clone());
    }
    Prediction { obs: std::mem::take(&mut it.out), diverged: it.diverged, micro_info: std::mem::take(&mut it.micro_info), quirk_hits: std::mem::take(&mut it.quirk_hits), term_start: it.term_start }
}

pub fn predict(doc: &Doc, sid: u32, inputs: &[EvIn], quirks: &Quirks) -> (Vec<Obs>, bool) {
    let m = Model::new(doc);
    let mut it = Interp::new(&m, sid);
    it.quirks = quirks.clone();
    it.start();
    for ev in inputs {
        if it.diverged {
            break;
        }
        it.external(ev.clone());
    }
    (std::mem::take(&mut it.out), it.diverged)
}

#[derive(Clone, Debug)]
pub struct Divergence {
    pub index: usize,
    pub expected: Option<Obs>,
    pub got: Option<Obs>,
    pub family: &'static str,
    /// family by the kind of the diverging observations alone (family is "termination" for every divergence
    /// in the termination phase)
    pub base: &'static str,
    pub context: Vec<String>,
    pub seq: u64,
}

fn obs_short(o: &Obs) -> String {
    match o {
        Obs::Mark { tag, args, config } => format!("Mark({} {:?} in {:?})", tag, args, config),
        other => format!("{:?}", other),
    }
}

/// The payload of an event as the reference describes it: the name/value pairs, or the value of <content>
/// under the key '@content'.
pub fn payload_of(e: &EvDesc) -> Option<Vec<(String, String)>> {
    match (&e.params, &e.content) {
        (Some(p), _) => Some(p.clone()),
        (None, Some(c)) => Some(vec![("@content".to_string(), c.clone())]),
        (None, None) => None,
    }
}

fn sent_matches(exp: &Obs, got: &Obs) -> bool {
    match (exp, got) {
        (Obs::Sent { event: e1, target: t1, delay_ms: d1, sendid: s1, params: p1 }, Obs::Sent { event: e2, target: t2, delay_ms: d2, sendid: s2, params: p2 }) => {
            let unknown = e2 == "?";
            let sid_ok = unknown || s1 == s2 || matches!((s1, s2), (Some(a), Some(_)) if a.starts_with("<generated:"));
            (unknown || e1 == e2) && (t2 == "?" || t1 == t2) && d1 == d2 && sid_ok && (unknown || p1 == p2)
        }
        _ => false,
    }
}

/// Compare prediction and reality record by record. `with_config` is false when the run had snapshots
/// switched off (observer-light): Config observations are then removed from the prediction.
pub fn compare(expected: &[Obs], real: &RealTrace, with_config: bool, uses_history: bool) -> Option<Divergence> {
    compare_t(expected, real, with_config, uses_history, None)
}

/// `term_start`: index into `expected` where the termination phase (exitInterpreter) begins; a divergence at
/// or after it belongs to the family "termination".
pub fn compare_t(expected: &[Obs], real: &RealTrace, with_config: bool, uses_history: bool, term_start: Option<usize>) -> Option<Divergence> {
    // <cancel> has no tracer callback in rFSM: its effect is checked through the timer history instead
    let keep = |o: &Obs| !matches!(o, Obs::Cancelled(_)) && (with_config || !matches!(o, Obs::Config(_)));
    let exp: Vec<&Obs> = expected.iter().filter(|o| keep(o)).collect();
    let term_filtered: Option<usize> = term_start.map(|t| expected.iter().take(t).filter(|o| keep(o)).count());
    let got: Vec<&Obs> = real.obs.iter().filter(|o| with_config || !matches!(o, Obs::Config(_))).collect();
    let seqs: Vec<u64> = real.obs.iter().zip(real.seqs.iter()).filter(|(o, _)| with_config || !matches!(o, Obs::Config(_))).map(|(_, s)| *s).collect();
    let n = exp.len().max(got.len());
    for i in 0..n {
        let e = exp.get(i).copied();
        let g = got.get(i).copied();
        let same = match (e, g) {
            (Some(a), Some(b)) => a == b || sent_matches(a, b),
            _ => false,
        };
        if same {
            continue;
        }
        // the real session may legitimately stop short of the prediction only at the very end (it was
        // still running when the run was cut) - not the case here: the driver always settles. A longer
        // real trace (e.g. events processed after the end) is a divergence too.
        let mut family = classify(e, g, uses_history);
        let base = family;
        if let Some(t) = term_filtered {
            if i >= t {
                family = "termination";
            }
        }
        let lo = i.saturating_sub(6);
        let mut context: Vec<String> = Vec::new();
        for k in lo..i {
            if let Some(x) = got.get(k) {
                context.push(format!("  = {}", obs_short(x)));
            }
        }
        return Some(Divergence { index: i, expected: e.cloned(), got: g.cloned(), family, base, context, seq: seqs.get(i).copied().unwrap_or(0) });
    }
    None
}

fn classify(e: Option<&Obs>, g: Option<&Obs>, uses_history: bool) -> &'static str {
    use Obs::*;
    // the content of a history's default transition (marks 'hd<n>') is part of entering through the history:
    // where it is missing, extra or misplaced the divergence belongs to the history family (C06)
    let is_hd = |o: Option<&Obs>| matches!(o, Some(Mark { tag, .. }) if tag.starts_with("hd"));
    if is_hd(e) != is_hd(g) || (is_hd(e) && is_hd(g) && matches!((e, g), (Some(Mark { tag: a, .. }), Some(Mark { tag: b, .. })) if a != b)) {
        return "history-entry";
    }
    match (e, g) {
        (Some(Enabled(_)), Some(Enabled(_))) => "enabled-set",
        (Some(Mark { tag: t1, args: a1, config: c1 }), Some(Mark { tag: t2, args: a2, config: c2 })) => {
            if t1 != t2 {
                "content-order"
            } else if a1 != a2 {
                "data-value"
            } else if c1 != c2 {
                "config-midstep"
            } else {
                "content-order"
            }
        }
        (Some(Config(_)), Some(Config(_))) => "config",
        (Some(Enter(_)), Some(Enter(_))) | (Some(Enter(_)), Some(Config(_))) | (Some(Config(_)), Some(Enter(_))) => {
            if uses_history {
                "history-entry"
            } else {
                "entry-order"
            }
        }
        (Some(Exit(_)), Some(Exit(_))) | (Some(Exit(_)), _) | (_, Some(Exit(_))) => "exit-order",
        (Some(IntRecv(a)), Some(IntRecv(b))) => {
            if a.starts_with("error.") || b.starts_with("error.") {
                "error-event"
            } else if a.starts_with("done.") || b.starts_with("done.") {
                "done-event"
            } else {
                "internal-order"
            }
        }
        (Some(IntRecv(a)), _) | (_, Some(IntRecv(a))) => {
            if a.starts_with("error.") {
                "error-event"
            } else if a.starts_with("done.") {
                "done-event"
            } else {
                "macrostep"
            }
        }
        (Some(IntSend(_)), _) | (_, Some(IntSend(_))) => "done-event",
        (Some(Idle), _) | (_, Some(Idle)) => "macrostep",
        (Some(ExtRecv(_)), _) | (_, Some(ExtRecv(_))) => "macrostep",
        (Some(Sent { .. }), _) | (_, Some(Sent { .. })) => "send",
        (Some(Cancelled(_)), _) | (_, Some(Cancelled(_))) => "send",
        (Some(End), _) | (_, Some(End)) => "termination",
        (Some(Mark { .. }), _) | (_, Some(Mark { .. })) => "content-order",
        (Some(Enter(_)), _) | (_, Some(Enter(_))) => {
            if uses_history {
                "history-entry"
            } else {
                "entry-order"
            }
        }
        _ => "other",
    }
}

pub fn doc_uses_history(doc: &Doc) -> bool {
    fn rec(n: &crate::gen::Node) -> bool {
        n.kind.is_history() || n.children.iter().any(rec)
    }
    rec(&doc.root)
}

/// Legality of a configuration (state names) with respect to the document tree (C01).
pub fn legality(doc: &Doc, config: &BTreeSet<String>) -> Result<(), String> {
    let m = Model::new(doc);
    let mut set: BTreeSet<usize> = BTreeSet::new();
    for n in config {
        match m.by_id.get(n) {
            Some(i) => {
                set.insert(*i);
            }
            None => return Err(format!("unknown state '{}' in configuration", n)),
        }
    }
    if set.is_empty() {
        return Err("empty configuration".into());
    }
    for s in &set {
        if m.is_history(*s) {
            return Err(format!("history pseudo-state {} is active", m.st[*s].id));
        }
        let p = m.st[*s].parent.unwrap_or(0);
        if p != 0 && !set.contains(&p) {
            return Err(format!("{} is active but its parent {} is not", m.st[*s].id, m.st[p].id));
        }
    }
    let top = m.st[0].children.iter().filter(|c| set.contains(c)).count();
    if top != 1 {
        return Err(format!("{} active children of the document root", top));
    }
    for s in &set {
        if m.is_compound(*s) {
            let k = m.st[*s].children.iter().filter(|c| set.contains(c)).count();
            if k != 1 {
                return Err(format!("compound state {} has {} active children", m.st[*s].id, k));
            }
        } else if m.is_parallel(*s) {
            for c in &m.st[*s].children {
                if !set.contains(c) {
                    return Err(format!("parallel state {} is active but its child {} is not", m.st[*s].id, m.st[*c].id));
                }
            }
        }
    }
    Ok(())
}
