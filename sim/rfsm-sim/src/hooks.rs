//! Observation hooks installed into rFSM through its public extension points:
//! a recording `Tracer`, the `mark(...)` custom `Action`, the event describer of the transport seam
//! and the session-start probe.

use rfsm_verif_seams::rec::{self, EvDesc, RecKind};
use rufsm::actions::{Action, ActionWrapper};
use rufsm::datamodel::{Data, GlobalDataArc};
use rufsm::fsm::{Event, GlobalData, State};
use rufsm::tracer::{TraceMode, Tracer, TracerFactory};
use std::any::Any;
use std::cell::Cell;
use std::fmt::Display;

thread_local! {
    /// observer-light knob: when false the tracer never locks GlobalData.
    pub static SNAPSHOTS_ON: Cell<bool> = const { Cell::new(true) };
}

pub fn describe_event(e: &Event) -> EvDesc {
    EvDesc {
        name: e.name.clone(),
        etype: e.etype.name().to_string(),
        sendid: e.sendid.clone(),
        origin: e.origin.clone(),
        origintype: e.origin_type.clone(),
        invokeid: e.invoke_id.clone(),
        params: e
            .param_values
            .as_ref()
            .map(|v| v.iter().map(|p| (p.name.clone(), data_to_string(&p.value))).collect()),
        content: e.content.as_ref().map(data_to_string),
    }
}

pub fn data_to_string(d: &Data) -> String {
    match d {
        Data::String(s) => format!("'{}'", s),
        Data::Source(s) => format!("src:{}", s.source),
        Data::None() => "<none>".to_string(),
        Data::Map(m) => {
            // canonical: sorted by key (the textual form of rFSM follows the hash order)
            let mut kv: Vec<(String, String)> = m.iter().map(|(k, v)| (k.clone(), data_to_string(&v.lock().unwrap()))).collect();
            kv.sort();
            format!("{{{}}}", kv.iter().map(|(k, v)| format!("{}={}", k, v)).collect::<Vec<_>>().join(";"))
        }
        other => format!("{}", other),
    }
}

/// Install describer + start hook for the current OS thread (= the current run).
pub fn install_seam_hooks() {
    rec::set_describer(Box::new(|type_name: &'static str, p: *const ()| -> Option<EvDesc> {
        if type_name == std::any::type_name::<Box<Event>>() {
            // SAFETY: the pointer was derived from a live `&T` whose type name equals Box<Event>'s.
            let e: &Box<Event> = unsafe { &*(p as *const Box<Event>) };
            Some(describe_event(e))
        } else {
            None
        }
    }));
    rfsm_verif_seams::probe::set_start_hook(std::rc::Rc::new(|_sid: u32, any: &dyn Any| {
        let g = any.downcast_ref::<GlobalDataArc>().expect("GlobalDataArc expected in start probe");
        let chan = g.lock().unwrap().externalQueue.sender.chan_id();
        (chan, Box::new(g.clone()) as Box<dyn Any + Send>)
    }));
}

#[derive(Debug)]
pub struct RecordingTracer {
    depth_microstep: Cell<u32>,
    in_select: Cell<bool>,
}

fn static_method(name: &str) -> Option<&'static str> {
    Some(match name {
        "interpret" => "interpret",
        "mainEventLoop" => "mainEventLoop",
        "microstep" => "microstep",
        "internalQueue.dequeue" => "internalQueue.dequeue",
        "externalQueue.dequeue" => "externalQueue.dequeue",
        "cancelInvoke" => "cancelInvoke",
        "exitStates" => "exitStates",
        "enterStates" => "enterStates",
        "selectTransitions" => "selectTransitions",
        "selectEventlessTransitions" => "selectEventlessTransitions",
        "executeGlobalScriptElement" => "executeGlobalScriptElement",
        _ => return None,
    })
}

fn snapshot(at: &'static str) {
    if !SNAPSHOTS_ON.with(|s| s.get()) {
        return;
    }
    let session = rec::session_of_current_task();
    if session == 0 {
        return;
    }
    let arc: Option<GlobalDataArc> =
        rec::with(|r| r.session_global.get(&session).and_then(|b| b.downcast_ref::<GlobalDataArc>().cloned()));
    if let Some(g) = arc {
        let kind = {
            let gd = g.lock().unwrap();
            let mut children: Vec<String> = gd.child_sessions.keys().cloned().collect();
            children.sort();
            let mut delayed: Vec<String> = gd.delayed_send.keys().cloned().collect();
            delayed.sort();
            RecKind::Snapshot {
                at,
                config: gd.configuration.iterator().copied().collect(),
                to_invoke: gd.statesToInvoke.iterator().copied().collect(),
                children,
                delayed,
                running: gd.running,
            }
        };
        rec::push(kind);
    }
}

impl Tracer for RecordingTracer {
    fn trace(&self, _msg: &str) {}
    fn enter(&self) {}
    fn leave(&self) {}
    fn enable_trace(&mut self, _flag: TraceMode) {}
    fn disable_trace(&mut self, _flag: TraceMode) {}
    fn is_trace(&self, _flag: TraceMode) -> bool {
        false
    }
    fn trace_mode(&self) -> TraceMode {
        TraceMode::ALL
    }

    fn enter_method(&self, what: &str) {
        if let Some(m) = static_method(what) {
            match m {
                "microstep" => self.depth_microstep.set(self.depth_microstep.get() + 1),
                "selectTransitions" | "selectEventlessTransitions" => {
                    self.in_select.set(true);
                    return;
                }
                "externalQueue.dequeue" => {
                    // the idle point: no lock is held by the session thread here
                    snapshot("idle");
                }
                _ => {}
            }
            rec::push(RecKind::Method { name: m, enter: true });
        }
    }

    fn exit_method(&self, what: &str) {
        if let Some(m) = static_method(what) {
            match m {
                "selectTransitions" | "selectEventlessTransitions" => {
                    self.in_select.set(false);
                    return;
                }
                _ => {}
            }
            rec::push(RecKind::Method { name: m, enter: false });
            match m {
                "microstep" => {
                    self.depth_microstep.set(self.depth_microstep.get().saturating_sub(1));
                    snapshot("microstep");
                }
                "enterStates" => {
                    if self.depth_microstep.get() == 0 {
                        snapshot("startup");
                    }
                }
                _ => {}
            }
        }
    }

    fn event_internal_send(&self, what: &Event) {
        rec::push(RecKind::IntSend { ev: describe_event(what) });
    }

    fn event_internal_received(&self, what: &Event) {
        rec::push(RecKind::IntRecv { ev: describe_event(what) });
    }

    fn event_external_send(&self, _what: &Event) {}

    fn event_external_received(&mut self, what: &Event) {
        rec::push(RecKind::ExtRecv { ev: describe_event(what) });
    }

    fn trace_state(&self, _what: &str, _s: &State) {}

    fn trace_enter_state(&self, s: &State) {
        rec::push(RecKind::Enter { state: s.id, name: s.name.clone() });
    }

    fn trace_exit_state(&self, s: &State) {
        rec::push(RecKind::Exit { state: s.id, name: s.name.clone() });
    }

    fn trace_argument(&self, _what: &str, _d: &dyn Display) {}

    fn trace_result(&self, what: &str, d: &dyn Display) {
        if what == "enabledTransitions" && self.in_select.get() {
            let s = format!("{}", d);
            let tids: Vec<u32> = s
                .trim_matches(|c| c == '[' || c == ']')
                .split(',')
                .filter_map(|x| x.trim().parse::<u32>().ok())
                .collect();
            rec::push(RecKind::Enabled { tids });
        }
    }
}

pub struct RecordingTracerFactory;

impl TracerFactory for RecordingTracerFactory {
    fn create(&mut self) -> Box<dyn Tracer> {
        Box::new(RecordingTracer { depth_microstep: Cell::new(0), in_select: Cell::new(false) })
    }
}

/// `mark(a, b, ...)`: records its arguments and the real configuration at the instant of evaluation.
#[derive(Clone)]
pub struct MarkAction;

impl Action for MarkAction {
    fn execute(&self, arguments: &[Data], global: &GlobalData) -> Result<Data, String> {
        let args: Vec<String> = arguments.iter().map(data_to_string).collect();
        let config: Vec<u32> = global.configuration.iterator().copied().collect();
        rec::push(RecKind::Mark { args, config });
        Ok(Data::Boolean(true))
    }

    fn get_copy(&self) -> Box<dyn Action> {
        Box::new(self.clone())
    }
}

pub fn new_actions() -> ActionWrapper {
    let mut a = ActionWrapper::new();
    a.add_action("mark", Box::new(MarkAction));
    a
}
