//! Scenario = complete, serialisable description of one workload: documents, auxiliary files, the
//! driver script, producer scripts and knobs. `run_scenario` executes it as the shuttle main task.

use crate::hooks;
use rfsm_verif_seams::rec::{self, RecKind};
use rfsm_verif_seams::{driver, timer};
use rufsm::datamodel::Data;
use rufsm::fsm::{Event, FinishMode, ParamPair, ScxmlSession, EVENT_CANCEL_SESSION};
use rufsm::fsm_executor::FsmExecutor;
use serde::{Deserialize, Serialize};
use std::sync::{Arc, Mutex};

#[derive(Clone, Debug, Serialize, Deserialize, PartialEq)]
pub enum PVal {
    Int(i64),
    Str(String),
    /// an array of integers (its elements are values of their own: an event that is copied shallowly shares them)
    Arr(Vec<i64>),
}

#[derive(Clone, Debug, Serialize, Deserialize, PartialEq, Default)]
pub struct EvSpec {
    pub name: String,
    #[serde(default)]
    pub params: Vec<(String, PVal)>,
    #[serde(default)]
    pub content: Option<String>,
    /// invoke id stamped on the event (an event that claims to come from an invoked child)
    #[serde(default)]
    pub invokeid: Option<String>,
}

impl EvSpec {
    pub fn simple(name: &str) -> EvSpec {
        EvSpec { name: name.to_string(), params: vec![], content: None, invokeid: None }
    }
    pub fn to_event(&self) -> Event {
        let mut e = Event::new_simple(&self.name);
        if !self.params.is_empty() {
            e.param_values = Some(
                self.params
                    .iter()
                    .map(|(n, v)| {
                        ParamPair::new_moved(
                            n.clone(),
                            match v {
                                PVal::Int(i) => Data::Integer(*i),
                                PVal::Str(s) => Data::String(s.clone()),
                                PVal::Arr(a) => Data::Array(a.iter().map(|i| rufsm::datamodel::create_data_arc(Data::Integer(*i))).collect()),
                            },
                        )
                    })
                    .collect(),
            );
        }
        if let Some(c) = &self.content {
            e.content = Some(Data::String(c.clone()));
        }
        if let Some(i) = &self.invokeid {
            e.invoke_id = Some(i.clone());
        }
        e
    }
}

#[derive(Clone, Debug, Serialize, Deserialize)]
pub struct DocSrc {
    pub name: String,
    pub xml: String,
    /// pass the parsed model through FsmWriter -> FsmReader before starting it
    #[serde(default)]
    pub via_rfsm: bool,
    /// oracle model (generator tree), when the document was produced by the statechart generator
    #[serde(default)]
    pub model: Option<crate::gen::Doc>,
}

#[derive(Clone, Debug, Serialize, Deserialize, PartialEq)]
pub enum Step {
    /// parse docs[doc] with the real reader and start it as a root session
    Start { doc: usize },
    /// start the listed producer tasks (they run concurrently with everything else)
    Producers { ids: Vec<usize> },
    /// driver sends an event to the root session started by the k-th Start step
    Send { sess: usize, ev: EvSpec },
    /// wait until the system is quiescent
    Quiesce,
    /// discrete-event time: while timers are pending (at most `max` rounds) jump the clock to the next due
    /// time, let the callbacks run, wait for quiescence
    DrainTimers { max: usize },
    /// move the clock forward by `ms` (timers that become due fire), then wait for quiescence
    Advance { ms: u64 },
    /// platform cancel event to a root session
    Cancel { sess: usize },
    /// FsmExecutor::shutdown()
    Shutdown,
    /// send `ping` to every live root session (documents answer with mark('pong'))
    Ping,
    /// switch the jitter clock task on/off (timers fire while sessions are busy)
    Jitter { on: bool },
    /// external HTTP client: blocking POST of a form through the simulated network (S5-http only)
    HttpPost { url: String, pairs: Vec<(String, String)> },
}

#[derive(Clone, Debug, Serialize, Deserialize, PartialEq)]
pub enum PStep {
    Send { sess: usize, ev: EvSpec },
    /// start docs[doc] from this producer (concurrent session creation)
    Start { doc: usize },
    Cancel { sess: usize },
    Yield,
    HttpPost { url: String, pairs: Vec<(String, String)> },
}

#[derive(Clone, Debug, Serialize, Deserialize, PartialEq)]
pub struct Knobs {
    pub snapshots: bool,
    /// stack size of simulated tasks
    pub big_stacks: bool,
    /// end of run: cancel everything still running and join root sessions
    pub settle: bool,
    /// first session id / platform id issued in this run (multi-digit ids); 0 or 1 = the platform's default
    #[serde(default)]
    pub id_base: u32,
}

impl Default for Knobs {
    fn default() -> Self {
        Knobs { snapshots: true, big_stacks: false, settle: true, id_base: 0 }
    }
}

#[derive(Clone, Debug, Serialize, Deserialize)]
pub struct Scenario {
    pub kind: String,
    pub docs: Vec<DocSrc>,
    #[serde(default)]
    pub files: Vec<(String, String)>,
    pub script: Vec<Step>,
    #[serde(default)]
    pub producers: Vec<Vec<PStep>>,
    #[serde(default)]
    pub knobs: Knobs,
    /// free-form notes of the generator (fault kinds placed, expectations), used by checkers
    #[serde(default)]
    pub notes: std::collections::BTreeMap<String, String>,
}

/// What the driver learned during the run, for the checkers.
#[derive(Default, Debug, Clone)]
pub struct DriverOut {
    /// k-th started root session -> session id
    pub root_sessions: Vec<u32>,
    /// k-th started root session -> index of its document in Scenario.docs
    pub root_docs: Vec<usize>,
    /// final configuration per root session (state names), if the session ended
    pub final_configs: Vec<Option<Vec<String>>>,
    /// sessions known to the executor at the end
    pub executor_sessions: Vec<u32>,
    pub completed_script: bool,
    pub start_errors: Vec<String>,
    /// results of a custom driver (C18: findings as 'rule|signature|message', counters)
    pub custom: Vec<String>,
    pub custom_counts: std::collections::BTreeMap<String, u64>,
}

struct Ctx {
    executor: FsmExecutor,
    sessions: Arc<Mutex<Vec<Option<ScxmlSession>>>>,
    out: Arc<Mutex<DriverOut>>,
}

fn start_doc(sc: &Scenario, doc: usize, executor: &FsmExecutor) -> Result<ScxmlSession, String> {
    let d = &sc.docs[doc];
    let mut fsm = rufsm::scxml_reader::parse_from_xml(d.xml.clone())?;
    if d.via_rfsm {
        fsm = roundtrip_rfsm(&fsm)?;
    }
    Ok(rufsm::fsm::start_fsm_with_data_and_finish_mode(
        fsm,
        hooks::new_actions(),
        Box::new(executor.clone()),
        &[],
        FinishMode::KEEP_CONFIGURATION,
    ))
}

pub fn roundtrip_rfsm(fsm: &rufsm::fsm::Fsm) -> Result<Box<rufsm::fsm::Fsm>, String> {
    use rufsm::serializer::default_protocol_reader::DefaultProtocolReader;
    use rufsm::serializer::default_protocol_writer::DefaultProtocolWriter;
    use rufsm::serializer::fsm_reader::FsmReader;
    use rufsm::serializer::fsm_writer::FsmWriter;
    let mut buf: Vec<u8> = Vec::new();
    {
        let w = DefaultProtocolWriter::new(&mut buf);
        let mut fw = FsmWriter::new(Box::new(w));
        fw.write(fsm);
        fw.close();
    }
    let r = DefaultProtocolReader::new(std::io::Cursor::new(buf));
    let mut fr = FsmReader::new(Box::new(r));
    fr.read()
}

fn send_to(ctx: &Ctx, sess: usize, e: Event) {
    let sender = {
        let s = ctx.sessions.lock().unwrap();
        s.get(sess).and_then(|x| x.as_ref()).map(|x| x.sender.clone())
    };
    if let Some(s) = sender {
        let _ = s.send(Box::new(e));
    }
}

fn register_session(ctx: &Ctx, doc: usize, res: Result<ScxmlSession, String>) {
    ctx.out.lock().unwrap().root_docs.push(doc);
    match res {
        Ok(s) => {
            ctx.out.lock().unwrap().root_sessions.push(s.session_id);
            ctx.out.lock().unwrap().final_configs.push(None);
            ctx.sessions.lock().unwrap().push(Some(s));
        }
        Err(e) => {
            ctx.out.lock().unwrap().start_errors.push(e);
            ctx.out.lock().unwrap().root_sessions.push(0);
            ctx.out.lock().unwrap().final_configs.push(None);
            ctx.sessions.lock().unwrap().push(None);
        }
    }
}

/// S5-http: '@loc:<k>' = the location the k-th root session published in _ioprocessors (its 'loc' mark),
/// '@base' = scheme://host:port the server listens on.
fn resolve(ctx: &Ctx, s: &str) -> String {
    if let Some(rest) = s.strip_prefix("@loc:") {
        let k: usize = rest.parse().unwrap_or(0);
        let sid = ctx.out.lock().unwrap().root_sessions.get(k).copied().unwrap_or(0);
        let loc = rec::with(|r| {
            r.log.iter().find_map(|x| match &x.kind {
                RecKind::Mark { args, .. } if x.session == sid && args.first().map(|a| a.as_str()) == Some("'loc'") => args.get(1).map(|a| a.trim_matches('\'').to_string()),
                _ => None,
            })
        });
        loc.unwrap_or_else(|| "http://unpublished.invalid/".to_string())
    } else if let Some(rest) = s.strip_prefix("@base") {
        format!("{}{}", crate::net::base(), rest)
    } else {
        s.to_string()
    }
}

fn http_post(ctx: &Ctx, url: &str, pairs: &[(String, String)]) {
    let url = resolve(ctx, url);
    let p: Vec<(&str, &str)> = pairs.iter().map(|(a, b)| (a.as_str(), b.as_str())).collect();
    let _ = rfsm_verif_seams::http::post_form(&url, &p);
}

fn resolve_event(ctx: &Ctx, ev: &EvSpec) -> Event {
    if ev.params.iter().any(|(_, v)| matches!(v, PVal::Str(s) if s.starts_with('@'))) {
        let mut e2 = ev.clone();
        for (_, v) in e2.params.iter_mut() {
            if let PVal::Str(s) = v {
                if s.starts_with('@') {
                    *s = resolve(ctx, s);
                }
            }
        }
        e2.to_event()
    } else {
        ev.to_event()
    }
}

fn drain_timers(max: usize) {
    for _ in 0..max {
        driver::wait_quiescent();
        match rec::with(|r| r.next_due()) {
            Some(d) => {
                timer::advance_to(d);
                driver::wait_quiescent();
            }
            None => break,
        }
    }
}

/// The shuttle main task. Everything the harness itself shares between tasks uses std primitives that
/// are never contended across a scheduling point (locks are taken and released without yielding).
pub fn run_scenario(sc: Arc<Scenario>, out: Arc<Mutex<DriverOut>>) {
    driver::init();
    rufsm::fsm::verif_reset_counters();
    if sc.knobs.id_base > 1 {
        rufsm::fsm::verif_set_id_bases(sc.knobs.id_base, sc.knobs.id_base * 7 + 3);
    }
    if sc.kind == "C18-iofault" {
        crate::props::c18::driver(&sc, &out);
        return;
    }
    rufsm::tracer::set_tracer_factory(Box::new(hooks::RecordingTracerFactory));
    hooks::SNAPSHOTS_ON.with(|s| s.set(sc.knobs.snapshots));
    let with_http = sc.kind == "S5-http";
    let mut net_task: Option<shuttle::thread::JoinHandle<()>> = None;
    let executor = if with_http {
        let plan: Vec<u8> = sc.notes.get("net_plan").map(|s| s.split(',').filter_map(|x| x.trim().parse().ok()).collect()).unwrap_or_default();
        rfsm_verif_seams::http::reset(plan);
        // the real constructor: builds and ignites the server, registers the BasicHTTP and the SCXML processor
        let e = crate::net::block_on(FsmExecutor::new_with_io_processor());
        match crate::net::take_server() {
            Some((server, bases)) => {
                crate::net::set_base(bases.last().cloned().unwrap_or_default());
                let wire = rfsm_verif_seams::http::open_wire();
                net_task = Some(shuttle::thread::Builder::new().name("net".into()).spawn(move || crate::net::serve(server, bases, wire)).unwrap());
            }
            None => out.lock().unwrap().start_errors.push("no HTTP server was launched".into()),
        }
        e
    } else {
        FsmExecutor::new_without_io_processor()
    };
    let ctx = Arc::new(Ctx { executor, sessions: Arc::new(Mutex::new(Vec::new())), out });
    let mut producer_handles = Vec::new();
    let mut clock: Option<shuttle::thread::JoinHandle<()>> = None;

    for step in &sc.script {
        rec::push(RecKind::Driver { what: format!("{:?}", StepTag(step)) });
        match step {
            Step::Start { doc } => {
                let r = start_doc(&sc, *doc, &ctx.executor);
                register_session(&ctx, *doc, r);
            }
            Step::Producers { ids } => {
                for id in ids {
                    let script = sc.producers[*id].clone();
                    let c = ctx.clone();
                    let scc = sc.clone();
                    driver::producer_begin();
                    let h = shuttle::thread::Builder::new()
                        .name(format!("producer_{}", id))
                        .spawn(move || {
                            for ps in &script {
                                match ps {
                                    PStep::Send { sess, ev } => send_to(&c, *sess, resolve_event(&c, ev)),
                                    PStep::Start { doc } => {
                                        let r = start_doc(&scc, *doc, &c.executor);
                                        register_session(&c, *doc, r);
                                    }
                                    PStep::Cancel { sess } => send_to(&c, *sess, Event::new_simple(EVENT_CANCEL_SESSION)),
                                    PStep::Yield => shuttle::thread::yield_now(),
                                    PStep::HttpPost { url, pairs } => http_post(&c, url, pairs),
                                }
                            }
                            driver::producer_end();
                        })
                        .unwrap();
                    producer_handles.push(h);
                }
            }
            Step::Send { sess, ev } => send_to(&ctx, *sess, resolve_event(&ctx, ev)),
            Step::Quiesce => driver::wait_quiescent(),
            Step::DrainTimers { max } => drain_timers(*max),
            Step::Advance { ms } => {
                driver::wait_quiescent();
                let t = rec::with(|r| r.now) + ms;
                // fire in due order: stop at every due time on the way
                loop {
                    match rec::with(|r| r.next_due()) {
                        Some(d) if d <= t => {
                            timer::advance_to(d);
                            driver::wait_quiescent();
                        }
                        _ => break,
                    }
                }
                timer::advance_to(t);
                driver::wait_quiescent();
            }
            Step::Cancel { sess } => send_to(&ctx, *sess, Event::new_simple(EVENT_CANCEL_SESSION)),
            Step::Shutdown => {
                let mut e = ctx.executor.clone();
                e.shutdown();
            }
            Step::Jitter { on } => {
                if *on {
                    if clock.is_none() {
                        clock = Some(timer::start_jitter_clock());
                    }
                } else if let Some(h) = clock.take() {
                    timer::stop_jitter_clock(h);
                }
            }
            Step::HttpPost { url, pairs } => {
                driver::producer_begin();
                http_post(&ctx, url, pairs);
                driver::producer_end();
            }
            Step::Ping => {
                let n = ctx.sessions.lock().unwrap().len();
                for k in 0..n {
                    let live = {
                        let s = ctx.sessions.lock().unwrap();
                        s[k].as_ref().map(|x| x.session_id)
                    };
                    if let Some(sid) = live {
                        if !rec::with(|r| r.sessions_finished.contains(&sid)) {
                            send_to(&ctx, k, Event::new_simple("ping"));
                        }
                    }
                }
            }
        }
    }
    for h in producer_handles {
        let _ = h.join();
    }
    if let Some(h) = clock.take() {
        timer::stop_jitter_clock(h);
    }
    driver::wait_quiescent();
    ctx.out.lock().unwrap().completed_script = true;
    rec::push(RecKind::Driver { what: "settle".into() });

    {
        // cancel every session the executor knows that is still running (children included)
        let ids: Vec<(u32, rufsm::fsm::EventSender)> = {
            let st = ctx.executor.state.lock().unwrap();
            let mut v: Vec<(u32, rufsm::fsm::EventSender)> = st.sessions.iter().map(|(k, s)| (*k, s.sender.clone())).collect();
            v.sort_by_key(|x| x.0);
            v
        };
        ctx.out.lock().unwrap().executor_sessions = ids.iter().map(|x| x.0).collect();
        for (sid, sender) in &ids {
            if !rec::with(|r| r.sessions_finished.contains(sid)) {
                let _ = sender.send(Box::new(Event::new_simple(EVENT_CANCEL_SESSION)));
            }
        }
        driver::wait_quiescent();
        // join the root sessions and collect their final configurations
        let sessions: Vec<Option<ScxmlSession>> = std::mem::take(&mut *ctx.sessions.lock().unwrap());
        for (k, s) in sessions.into_iter().enumerate() {
            if let Some(mut s) = s {
                if let Some(h) = s.thread.take() {
                    let _ = h.join();
                }
                let fc = s.global_data.lock().unwrap().final_configuration.clone();
                ctx.out.lock().unwrap().final_configs[k] = fc;
            }
        }
    }
    {
        // let detached tasks (cancelled children, stopped timer tasks) run to their end so that their
        // coroutines are reusable
        driver::wait_until(|| rec::with(|r| r.rfsm_threads_live == 0 && r.timer_tasks_live == 0));
    }
    if with_http {
        // stop the processors (the HTTP one notifies its server's shutdown handle), then the network
        let mut e = ctx.executor.clone();
        e.shutdown();
        rfsm_verif_seams::http::close_wire();
        if let Some(h) = net_task.take() {
            let _ = h.join();
        }
    }
    rec::push(RecKind::Driver { what: "end".into() });
    // drop GlobalData arcs inside the execution
    let sg = rec::with(|r| std::mem::take(&mut r.session_global));
    // rFSM's sessions, global data and executor reference each other (Arc cycles): take them apart, or every
    // run leaves its documents and data stores behind (a worker reached 4.5 GB in a thorough batch)
    for b in sg.values() {
        if let Some(g) = b.downcast_ref::<rufsm::datamodel::GlobalDataArc>() {
            if let Ok(mut gd) = g.lock() {
                gd.executor = None;
                gd.child_sessions.clear();
                gd.io_processors.clear();
                gd.delayed_send.clear();
            }
        }
    }
    {
        let mut st = ctx.executor.state.lock().unwrap();
        st.sessions.clear();
        st.processors.clear();
    }
    drop(sg);
}

struct StepTag<'a>(&'a Step);
impl<'a> std::fmt::Debug for StepTag<'a> {
    fn fmt(&self, f: &mut std::fmt::Formatter<'_>) -> std::fmt::Result {
        match self.0 {
            Step::Start { doc } => write!(f, "start doc{}", doc),
            Step::Producers { ids } => write!(f, "producers {:?}", ids),
            Step::Send { sess, ev } => write!(f, "send s{} {}", sess, ev.name),
            Step::Quiesce => write!(f, "quiesce"),
            Step::DrainTimers { max } => write!(f, "drain-timers {}", max),
            Step::Advance { ms } => write!(f, "advance {}", ms),
            Step::Cancel { sess } => write!(f, "cancel s{}", sess),
            Step::Shutdown => write!(f, "shutdown"),
            Step::Ping => write!(f, "ping"),
            Step::Jitter { on } => write!(f, "jitter {}", on),
            Step::HttpPost { url, .. } => write!(f, "http-post {}", url),
        }
    }
}
