//! Small deterministic helpers: PRNG (splitmix64), hashing.

#[derive(Clone, Debug)]
pub struct Rng {
    s: u64,
}

pub fn splitmix(mut z: u64) -> u64 {
    z = z.wrapping_add(0x9E37_79B9_7F4A_7C15);
    z = (z ^ (z >> 30)).wrapping_mul(0xBF58_476D_1CE4_E5B9);
    z = (z ^ (z >> 27)).wrapping_mul(0x94D0_49BB_1331_11EB);
    z ^ (z >> 31)
}

pub fn mix2(a: u64, b: u64) -> u64 {
    splitmix(splitmix(a) ^ b.wrapping_mul(0xD6E8_FEB8_6659_FD93))
}

impl Rng {
    pub fn new(seed: u64) -> Rng {
        Rng { s: splitmix(seed) }
    }
    pub fn next(&mut self) -> u64 {
        self.s = self.s.wrapping_add(0x9E37_79B9_7F4A_7C15);
        let mut z = self.s;
        z = (z ^ (z >> 30)).wrapping_mul(0xBF58_476D_1CE4_E5B9);
        z = (z ^ (z >> 27)).wrapping_mul(0x94D0_49BB_1331_11EB);
        z ^ (z >> 31)
    }
    /// uniform in [0, n)
    pub fn below(&mut self, n: u64) -> u64 {
        if n <= 1 {
            0
        } else {
            self.next() % n
        }
    }
    pub fn range(&mut self, lo: u64, hi_incl: u64) -> u64 {
        lo + self.below(hi_incl - lo + 1)
    }
    pub fn chance(&mut self, num: u64, den: u64) -> bool {
        self.below(den) < num
    }
    pub fn pick<'a, T>(&mut self, v: &'a [T]) -> &'a T {
        &v[self.below(v.len() as u64) as usize]
    }
    pub fn shuffle<T>(&mut self, v: &mut [T]) {
        for i in (1..v.len()).rev() {
            let j = self.below(i as u64 + 1) as usize;
            v.swap(i, j);
        }
    }
    pub fn fork(&mut self) -> Rng {
        Rng::new(self.next())
    }
}

pub fn fnv(bytes: &[u8]) -> u64 {
    let mut h: u64 = 0xcbf2_9ce4_8422_2325;
    for b in bytes {
        h ^= *b as u64;
        h = h.wrapping_mul(0x0000_0100_0000_01B3);
    }
    h
}

pub fn hash_str(s: &str) -> u64 {
    fnv(s.as_bytes())
}
