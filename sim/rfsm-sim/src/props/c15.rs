//! C15 — the SCXML event I/O processor routes each send to exactly the addressed queue; ids are unique.
//!
//! Workload S3/S4: 2-3 peer sessions started by the driver (ids 1..m), optionally one more started
//! concurrently by a host task, and an invoked child of peer 1. Every session executes a list of sends
//! covering all target forms (none, #_internal, #_scxml_<id> literal and via targetexpr, #_parent,
//! #_<invokeid>) x payload shapes (none, params, namelist, content literal, content expr); receivers
//! reply to `_event.origin`.
//! Oracle (transport history): exactly one Send per executed <send>, on the channel of exactly the
//! addressed session (or the sender's internal queue); name, sendid and payload as evaluated; origintype
//! and origin usable for a reply that reaches the original sender; session ids, generated send ids and
//! generated invoke ids pairwise distinct and of the form stateid.platformid.

use super::common::*;
use crate::engine::{Probes, Property, RunView, Tier, Verdict};
use crate::scenario::{DocSrc, EvSpec, Knobs, PStep, Scenario, Step};
use crate::util::Rng;
use rfsm_verif_seams::rec::RecKind;
use std::collections::{BTreeMap, BTreeSet};

pub struct C15Prop;
pub static C15: C15Prop = C15Prop;

const SCXML_TYPE: &str = "http://www.w3.org/TR/scxml/#SCXMLEventProcessor";

#[derive(Clone, Debug)]
struct SendSpec {
    n: usize,
    /// role of the sender: "p1", "p2", "p3", "late", "child"
    from: String,
    /// "self" | "internal" | role of the destination session
    dest: String,
    /// attributes rendering the target
    target_attr: String,
    payload: usize,
    with_id: u8, // 0 none, 1 literal id, 2 idlocation
}

fn payload_xml(p: usize) -> (&'static str, &'static str) {
    // (attributes, children)
    match p {
        0 => ("", ""),
        1 => ("", "<param name=\"a\" expr=\"x\"/><param name=\"b\" expr=\"s\"/><param name=\"c\" expr=\"7\"/>"),
        2 => (" namelist=\"x s\"", ""),
        3 => ("", "<content>hello</content>"),
        4 => ("", "<content expr=\"x + 1\"/>"),
        // params given by location, with values that are "empty" in one sense or another
        _ => ("", "<param name=\"e\" location=\"es\"/><param name=\"n\" location=\"nl\"/><param name=\"z\" location=\"zero\"/><param name=\"f\" location=\"no\"/><param name=\"l\" location=\"el\"/><param name=\"v\" location=\"x\"/>"),
    }
}

fn payload_expect(p: usize) -> (Option<Vec<(String, String)>>, Option<String>) {
    match p {
        0 => (None, None),
        1 => (Some(vec![("a".into(), "5".into()), ("b".into(), "'str'".into()), ("c".into(), "7".into())]), None),
        2 => (Some(vec![("x".into(), "5".into()), ("s".into(), "'str'".into())]), None),
        3 => (None, Some("'hello'".into())),
        4 => (None, Some("6".into())),
        _ => (Some(vec![("e".into(), "''".into()), ("n".into(), "null".into()), ("z".into(), "0".into()), ("f".into(), "false".into()), ("l".into(), "[]".into()), ("v".into(), "5".into())]), None),
    }
}

fn send_xml(s: &SendSpec) -> String {
    let (pa, pc) = payload_xml(s.payload);
    let idattr = match s.with_id {
        1 => format!(" id=\"id.{}\"", s.n),
        2 => " idlocation=\"gid\"".to_string(),
        _ => String::new(),
    };
    format!("<script>mark('send', {})</script><send event=\"m.{}\"{}{}{}>{}</send>", s.n, s.n, s.target_attr, idattr, pa, pc)
}

fn peer_doc(name: &str, sends: &[SendSpec], child: Option<&str>, trigger_at_start: bool) -> String {
    let mut s = String::new();
    s.push_str(&format!("<scxml xmlns=\"http://www.w3.org/2005/07/scxml\" version=\"1.0\" datamodel=\"rfsm-expression\" name=\"{}\" initial=\"run\">\n", name));
    s.push_str(" <datamodel><data id=\"x\" expr=\"5\"/><data id=\"s\" expr=\"'str'\"/><data id=\"gid\" expr=\"'none'\"/><data id=\"es\" expr=\"''\"/><data id=\"nl\" expr=\"null\"/><data id=\"zero\" expr=\"0\"/><data id=\"no\" expr=\"false\"/><data id=\"el\" expr=\"[]\"/></datamodel>\n <state id=\"run\">\n");
    if let Some(c) = child {
        s.push_str(&format!("  <invoke id=\"@KID@\"><content>{}</content></invoke>\n  <invoke><content>{}</content></invoke>\n", c, MINI_CHILD));
    }
    if trigger_at_start {
        s.push_str("  <onentry>");
        for sp in sends {
            s.push_str(&send_xml(sp));
        }
        s.push_str("</onentry>\n");
    } else {
        for sp in sends {
            s.push_str(&format!("  <transition event=\"k.{}\">{}</transition>\n", sp.n, send_xml(sp)));
        }
    }
    s.push_str("  <transition event=\"m\"><script>mark('got', _event.name, _event.origin, _event.origintype)</script><send targetexpr=\"_event.origin\" eventexpr=\"'r.' + _event.name\"/></transition>\n");
    s.push_str("  <transition event=\"r\"><script>mark('reply', _event.name)</script></transition>\n");
    s.push_str("  <transition event=\"ping\"><script>mark('pong')</script></transition>\n </state>\n</scxml>\n");
    s
}

/// second, anonymous invoke (generated invoke id) - a child that just waits
const MINI_CHILD: &str = "<scxml xmlns=\"http://www.w3.org/2005/07/scxml\" version=\"1.0\" datamodel=\"null\" name=\"mini\" initial=\"w\"><state id=\"w\"/></scxml>";

impl Property for C15Prop {
    fn id(&self) -> &'static str {
        "C15"
    }
    fn workloads(&self, tier: Tier) -> u64 {
        match tier {
            Tier::Quick => 40_000,
            Tier::Thorough => 250_000,
        }
    }
    fn schedules_per_workload(&self, tier: Tier) -> usize {
        match tier {
            Tier::Quick => 3,
            Tier::Thorough => 6,
        }
    }
    fn max_steps(&self) -> usize {
        150_000
    }
    fn nontrivial_rule(&self) -> &'static str {
        "non-trivial: at least 3 sessions were alive, at least 4 sends with external targets were executed and at least one reply round trip completed; distinct = distinct (scenario hash, interleaving signature)"
    }
    fn required_probes(&self) -> Vec<&'static str> {
        vec!["target:self", "target:internal", "target:literal", "target:targetexpr", "target:parent", "target:invokeid", "payload:params", "payload:namelist", "payload:content", "payload:contentexpr", "payload:params-by-location", "reply_round_trip", "concurrent_session_creation", "generated_sendid", "generated_invokeid"]
    }
    fn assumptions(&self) -> Vec<String> {
        vec![
            "'delivers to the queue' is checked at the queue (transport history); whether the receiver then processes the event is C13's / C14's business".into(),
            "literal #_scxml_<id> targets address sessions the driver started sequentially (their ids are known when the document is written)".into(),
        ]
    }

    fn generate(&self, rng: &mut Rng, tier: Tier, _index: u64) -> Scenario {
        let m = rng.range(2, 3) as usize;
        // session ids start at 1, 9 (one- and two-digit ids in one run) or 98 (two- and three-digit ids)
        let base: u32 = *rng.pick(&[1u32, 1, 9, 98]);
        let late = rng.chance(1, 2);
        let with_child = rng.chance(2, 3);
        let mut n = 0usize;
        let mut mk = |rng: &mut Rng, from: &str, allowed: &[&str]| -> SendSpec {
            let dest = rng.pick(allowed).to_string();
            let target_attr = match dest.as_str() {
                "self" => String::new(),
                "internal" => " target=\"#_internal\"".into(),
                "parent" | "parent2" => " target=\"#_parent\"".into(),
                "kid" | "kid2" => " target=\"#_@KID@\"".into(),
                d => {
                    let id: u32 = base - 1 + d.trim_start_matches('p').parse::<u32>().unwrap_or(1);
                    if rng.chance(1, 2) {
                        format!(" target=\"#_scxml_{}\"", id)
                    } else {
                        format!(" targetexpr=\"'#_scxml_' + {}\"", id)
                    }
                }
            };
            let sp = SendSpec { n, from: from.to_string(), dest, target_attr, payload: rng.below(6) as usize, with_id: rng.below(3) as u8 };
            n += 1;
            sp
        };
        let roles: Vec<String> = (1..=m).map(|k| format!("p{}", k)).collect();
        let mut all: Vec<SendSpec> = Vec::new();
        let mut docs = Vec::new();
        let nmax = if tier == Tier::Quick { 4 } else { 6 };
        // child of p1
        let mut child_xml: Option<String> = None;
        if with_child {
            let mut cs = Vec::new();
            for _ in 0..rng.range(1, 3) {
                cs.push(mk(rng, "child", &["parent", "self", "internal"]));
            }
            child_xml = Some(peer_doc("child", &cs, None, true).replace('\n', ""));
            all.extend(cs);
        }
        for (k, role) in roles.iter().enumerate() {
            let mut allowed: Vec<&str> = vec!["self", "internal"];
            for r in &roles {
                if r != role {
                    allowed.push(r.as_str());
                }
            }
            // the invoking peer is the last one started by the driver: its children get ids above m
            if k == m - 1 && with_child {
                allowed.push("kid");
                allowed.push("kid");
            }
            let mut ss = Vec::new();
            for _ in 0..rng.range(1, nmax) {
                ss.push(mk(rng, role, &allowed));
            }
            docs.push(DocSrc { name: role.clone(), xml: peer_doc(role, &ss, if k == m - 1 { child_xml.as_deref() } else { None }, false), via_rfsm: false, model: None });
            all.extend(ss);
        }
        // a second family: one more root session (started by the driver after the peers, nobody addresses it by a
        // literal id) that invokes a child under the SAME invoke id and talks to it through the same relative
        // target '#_<invokeid>': what '#_<invokeid>' and '#_parent' mean depends on who sends
        let two_fam = with_child && rng.chance(1, 2);
        if two_fam {
            let mut cs = Vec::new();
            for _ in 0..rng.range(1, 2) {
                cs.push(mk(rng, "child2", &["parent2", "self", "internal"]));
            }
            let child2 = peer_doc("child2", &cs, None, true).replace('\n', "");
            all.extend(cs);
            let mut allowed: Vec<&str> = vec!["kid2", "kid2", "kid2", "self"];
            for r in &roles {
                allowed.push(r.as_str());
            }
            let mut ss = Vec::new();
            for _ in 0..rng.range(1, 3) {
                ss.push(mk(rng, "fam2", &allowed));
            }
            docs.push(DocSrc { name: "fam2".into(), xml: peer_doc("fam2", &ss, Some(&child2), false), via_rfsm: false, model: None });
            all.extend(ss);
        }
        let f2 = two_fam as usize;
        // sessions started by host tasks while the invoking peer starts its children: concurrent start_fsm
        let nlate = if late { rng.range(1, 2) as usize } else { 0 };
        for l in 0..nlate {
            let role = if l == 0 { "late".to_string() } else { format!("late{}", l + 1) };
            let allowed: Vec<&str> = roles.iter().map(|s| s.as_str()).collect();
            let mut ss = Vec::new();
            for _ in 0..rng.range(1, 3) {
                ss.push(mk(rng, &role, &allowed));
            }
            docs.push(DocSrc { name: role.clone(), xml: peer_doc(&role, &ss, None, true), via_rfsm: false, model: None });
            all.extend(ss);
        }
        // the literal invoke id: also ids that begin like the special targets (#_parent, #_internal, #_scxml_<id>)
        let kid_id = *rng.pick(&["kid", "kid", "parentx", "internalx", "scxmlk", "Kid", "kidA.b"]);
        for d in docs.iter_mut() {
            d.xml = d.xml.replace("@KID@", kid_id);
        }
        let mut script: Vec<Step> = (0..m + f2).map(|d| Step::Start { doc: d }).collect();
        // triggers: the driver and a producer fire the k.<n> events concurrently
        let mut prod: Vec<PStep> = Vec::new();
        let mut starters: Vec<Vec<PStep>> = Vec::new();
        for l in 0..nlate {
            starters.push(vec![PStep::Start { doc: m + f2 + l }]);
        }
        let mut driver_sends: Vec<Step> = Vec::new();
        for sp in &all {
            if sp.from.starts_with('p') || sp.from == "fam2" {
                let sess: usize = if sp.from == "fam2" { m } else { sp.from.trim_start_matches('p').parse::<usize>().unwrap() - 1 };
                let ev = EvSpec::simple(&format!("k.{}", sp.n));
                if rng.chance(1, 2) {
                    prod.push(PStep::Send { sess, ev });
                } else {
                    driver_sends.push(Step::Send { sess, ev });
                }
            }
        }
        // the late sessions are started by their own host tasks right away: they race with each other and
        // with the children the last peer is invoking at this moment
        if nlate > 0 {
            script.push(Step::Producers { ids: (1..=nlate).collect() });
        }
        // give the invokes time to start before the parent addresses them - or not: a send to a child that is
        // registered but has not begun to run is queued for it, one to a child that is not registered yet fails
        // with an error event (C12's business)
        if rng.chance(2, 3) {
            script.push(Step::Quiesce);
        }
        script.push(Step::Producers { ids: vec![0] });
        script.extend(driver_sends);
        script.push(Step::Quiesce);
        script.push(Step::Ping);
        script.push(Step::Quiesce);
        let mut notes = BTreeMap::new();
        notes.insert("m".into(), m.to_string());
        notes.insert("kid_id".into(), kid_id.to_string());
        notes.insert("base".into(), base.to_string());
        if two_fam {
            notes.insert("two_fam".into(), "1".into());
        }
        for sp in &all {
            notes.insert(format!("send.{}", sp.n), format!("{}|{}|{}|{}|{}", sp.from, sp.dest, sp.payload, sp.with_id, if sp.target_attr.contains("targetexpr") { "expr" } else { "lit" }));
        }
        Scenario { kind: "S3-routing".into(), docs, files: vec![], script, producers: { let mut p = vec![prod]; p.extend(starters); p }, knobs: Knobs { snapshots: rng.chance(1, 2), id_base: base, ..Default::default() }, notes }
    }

    fn check(&self, v: &RunView, probes: &mut Probes) -> Verdict {
        let mut verdict = Verdict::default();
        {
            // Session ids are judged on every history, also on one that did not complete: two sessions with
            // one id share one entry of the executor's table, one of them can then not even be cancelled.
            let mut seen: BTreeSet<u32> = BTreeSet::new();
            for r in v.log {
                if let RecKind::SessionStart { session, .. } = &r.kind {
                    if !seen.insert(*session) {
                        verdict.violations.push(viol("C15", "C15.id-unique", format!("session id {} was issued twice", session), "session-id".into()));
                        return verdict;
                    }
                }
            }
        }
        if !outcome_gate(v, &mut verdict) {
            return verdict;
        }
        let m: usize = v.sc.notes.get("m").and_then(|s| s.parse().ok()).unwrap_or(2);
        // roles -> session ids
        let mut role_sid: BTreeMap<String, u32> = BTreeMap::new();
        for (k, sid) in v.out.root_sessions.iter().enumerate() {
            if let Some(d) = v.out.root_docs.get(k) {
                let name = v.sc.docs[*d].name.clone();
                role_sid.insert(name, *sid);
            }
        }
        // children of p1: sessions that are not roots; the 'kid' child runs the document named "child"
        let roots: BTreeSet<u32> = v.out.root_sessions.iter().copied().collect();
        let all_sessions: Vec<u32> = v.rec.session_task.keys().copied().collect();
        let mut kid: Option<u32> = None;
        let two_fam = v.sc.notes.contains_key("two_fam");
        for s in &all_sessions {
            if !roots.contains(s) && !two_fam {
                // the 'kid' child marks sends / is the one that executes content; the mini child uses the null datamodel
                let has_marks = v.log.iter().any(|r| r.session == *s && matches!(r.kind, RecKind::Mark { .. }));
                let is_child_doc = v.log.iter().any(|r| r.session == *s && matches!(&r.kind, RecKind::Enter { name, .. } if name == "run"));
                if is_child_doc || has_marks {
                    kid = Some(*s);
                }
            }
        }
        if let Some(k) = kid {
            role_sid.insert("child".into(), k);
        }
        let chan_of = |sid: u32| v.rec.session_chan.get(&sid).copied();
        let sid_of_chan: BTreeMap<usize, u32> = v.rec.session_chan.iter().map(|(s, c)| (*c, *s)).collect();
        let mut vio = Vec::new();
        // executed sends (mark 'send' n) per session
        let mut executed: BTreeMap<usize, u32> = BTreeMap::new();
        let mut executed_seq: BTreeMap<usize, u64> = BTreeMap::new();
        let mut started_seq: BTreeMap<u32, u64> = BTreeMap::new();
        for r in v.log {
            if let RecKind::SessionStart { session, .. } = &r.kind {
                started_seq.entry(*session).or_insert(r.seq);
            }
            if let RecKind::Mark { args, .. } = &r.kind {
                if args.first().map(|s| s.as_str()) == Some("'send'") {
                    if let Some(n) = args.get(1).and_then(|s| s.parse::<usize>().ok()) {
                        executed.insert(n, r.session);
                        executed_seq.insert(n, r.seq);
                    }
                }
            }
        }
        if two_fam {
            // two invoked children run the same kind of document: each is known by the sends it executed
            for (n, sid) in &executed {
                if let Some(note) = v.sc.notes.get(&format!("send.{}", n)) {
                    let from = note.split('|').next().unwrap_or("");
                    if (from == "child" || from == "child2") && !roots.contains(sid) {
                        role_sid.insert(from.to_string(), *sid);
                    }
                }
            }
        }
        let mut ext_sends = 0;
        let mut gen_sendids: Vec<String> = Vec::new();
        for (n, from_sid) in &executed {
            let note = match v.sc.notes.get(&format!("send.{}", n)) {
                Some(x) => x,
                None => continue,
            };
            let parts: Vec<&str> = note.split('|').collect();
            let (dest, payload, with_id, form) = (parts[1], parts[2].parse::<usize>().unwrap_or(0), parts[3], parts[4]);
            let name = format!("m.{}", n);
            verdict.evaluations += 1;
            // all transport sends of this event name
            let hits: Vec<(usize, &rfsm_verif_seams::rec::EvDesc, u32)> = v
                .log
                .iter()
                .filter_map(|r| match &r.kind {
                    RecKind::Send { chan, ev: Some(e), ok: true, .. } if e.name == name => Some((*chan, e, r.session)),
                    _ => None,
                })
                .collect();
            let int_hits = v.log.iter().filter(|r| r.session == *from_sid && matches!(&r.kind, RecKind::IntRecv { ev } if ev.name == name)).count();
            match dest {
                "internal" => {
                    probes.hit("target:internal");
                    if !hits.is_empty() {
                        vio.push(viol("C15", "C15.misrouted", format!("send {} to #_internal was put on an external queue (channel {})", n, hits[0].0), "internal-on-external".into()));
                    }
                    if int_hits != 1 {
                        vio.push(viol("C15", if int_hits == 0 { "C15.lost" } else { "C15.duplicated" }, format!("send {} to #_internal was received {} times from the sender's internal queue", n, int_hits), format!("internal-count-{}", int_hits.min(2))));
                    }
                }
                _ => {
                    let want_sid: Option<u32> = match dest {
                        "self" => Some(*from_sid),
                        "parent" => role_sid.get(&format!("p{}", m)).copied(),
                        "kid" => role_sid.get("child").copied(),
                        "parent2" => role_sid.get("fam2").copied(),
                        "kid2" => role_sid.get("child2").copied(),
                        d => role_sid.get(d).copied(),
                    };
                    match dest {
                        "self" => probes.hit("target:self"),
                        "parent" | "parent2" => probes.hit("target:parent"),
                        "kid" => probes.hit("target:invokeid"),
                        "kid2" => {
                            probes.hit("target:invokeid");
                            probes.hit("target:invokeid-of-second-family");
                        }
                        _ => {
                            if form == "expr" {
                                probes.hit("target:targetexpr")
                            } else {
                                probes.hit("target:literal")
                            }
                        }
                    }
                    let want_chan = want_sid.and_then(chan_of);
                    if want_chan.is_none() {
                        // destination never came up (e.g. the child was not started yet): an error event is C12's business
                        continue;
                    }
                    ext_sends += 1;
                    if int_hits > 0 {
                        vio.push(viol("C15", "C15.misrouted", format!("send {} with an external target was put on the internal queue", n), "external-on-internal".into()));
                    }
                    if hits.is_empty() {
                        // the target may have been unknown at that moment (child not yet registered): then an error event exists
                        let errored = v.log.iter().any(|r| r.session == *from_sid && matches!(&r.kind, RecKind::IntRecv { ev } if ev.name.starts_with("error.") ));
                        // ... but a session that was up and running when the <send> was executed is a known target:
                        // an error event instead of the delivery is a routing failure
                        let known_at_send = match (want_sid.and_then(|s| started_seq.get(&s)), executed_seq.get(n)) {
                            (Some(st), Some(ex)) => st < ex && want_sid.and_then(|s| session_end_seq(v.log, s)).map(|e| e > *ex).unwrap_or(true),
                            _ => false,
                        };
                        if !errored || known_at_send {
                            vio.push(viol("C15", "C15.lost", format!("send {} ({} -> {}) produced no event on any queue and no error event", n, parts[0], dest), format!("lost:{}", dest_class(dest))));
                        }
                        continue;
                    }
                    if hits.len() > 1 {
                        vio.push(viol("C15", "C15.duplicated", format!("send {} produced {} events", n, hits.len()), format!("duplicated:{}", dest_class(dest))));
                    }
                    for (chan, e, _) in &hits {
                        if Some(*chan) != want_chan {
                            vio.push(viol(
                                "C15",
                                "C15.misrouted",
                                format!("send {} ({} -> {}) was put on the queue of session {:?} instead of session {:?}", n, parts[0], dest, sid_of_chan.get(chan), want_sid),
                                format!("misrouted:{}", dest_class(dest)),
                            ));
                        }
                        // payload
                        let (ep, ec) = payload_expect(payload);
                        match payload {
                            1 => probes.hit("payload:params"),
                            2 => probes.hit("payload:namelist"),
                            3 => probes.hit("payload:content"),
                            4 => probes.hit("payload:contentexpr"),
                            5 => probes.hit("payload:params-by-location"),
                            _ => {}
                        }
                        if e.params != ep || e.content != ec {
                            vio.push(viol("C15", "C15.payload", format!("send {}: payload arrived as params {:?} content {:?}, evaluated arguments were params {:?} content {:?}", n, e.params, e.content, ep, ec), format!("payload:{}", payload)));
                        }
                        match with_id {
                            "1" => {
                                if e.sendid.as_deref() != Some(&format!("id.{}", n)) {
                                    vio.push(viol("C15", "C15.payload", format!("send {}: sendid arrived as {:?}", n, e.sendid), "sendid-literal".into()));
                                }
                            }
                            "2" => match &e.sendid {
                                Some(g) => {
                                    probes.hit("generated_sendid");
                                    gen_sendids.push(g.clone());
                                }
                                None => vio.push(viol("C15", "C15.payload", format!("send {} with idlocation arrived without sendid", n), "sendid-generated-missing".into())),
                            },
                            _ => {
                                if e.sendid.is_some() {
                                    vio.push(viol("C15", "C15.payload", format!("send {} without id arrived with sendid {:?}", n, e.sendid), "sendid-spurious".into()));
                                }
                            }
                        }
                        if e.etype != "external" {
                            vio.push(viol("C15", "C15.payload", format!("send {} put an event of type {} on an external queue", n, e.etype), "etype".into()));
                        }
                        if e.origintype.as_deref() != Some(SCXML_TYPE) {
                            vio.push(viol("C15", "C15.reply", format!("send {}: origintype {:?}", n, e.origintype), "origintype".into()));
                        }
                        let want_origin = format!("#_scxml_{}", from_sid);
                        if e.origin.as_deref() != Some(&want_origin) {
                            vio.push(viol("C15", "C15.reply", format!("send {}: origin {:?}, the sender is session {}", n, e.origin, from_sid), "origin".into()));
                        }
                    }
                    // reply round trip: if the receiver processed m.n it replied r.m.n to _event.origin
                    let rname = format!("r.m.{}", n);
                    let receiver_processed = v.log.iter().any(|r| Some(r.session) == want_sid && matches!(&r.kind, RecKind::Mark{args, ..} if args.first().map(|s| s.as_str()) == Some("'got'") && args.get(1).map(|s| s.trim_matches('\'')) == Some(name.as_str())));
                    if receiver_processed {
                        let replies: Vec<usize> = v.log.iter().filter_map(|r| match &r.kind {
                            RecKind::Send { chan, ev: Some(e), ok: true, .. } if e.name == rname => Some(*chan),
                            _ => None,
                        }).collect();
                        verdict.evaluations += 1;
                        let sender_alive = !v.rec.sessions_finished.contains(from_sid) || true;
                        if replies.is_empty() && sender_alive {
                            let errored = v.log.iter().any(|r| Some(r.session) == want_sid && matches!(&r.kind, RecKind::IntRecv { ev } if ev.name.starts_with("error.")));
                            if !errored {
                                vio.push(viol("C15", "C15.reply", format!("the reply to send {} never reached any queue", n), "reply-lost".into()));
                            }
                        }
                        for c in &replies {
                            if Some(*c) != chan_of(*from_sid) {
                                vio.push(viol("C15", "C15.reply", format!("the reply to send {} went to session {:?}, the original sender is session {}", n, sid_of_chan.get(c), from_sid), "reply-misrouted".into()));
                            } else {
                                probes.hit("reply_round_trip");
                            }
                        }
                    }
                }
            }
        }
        // ---- id uniqueness
        {
            let mut seen: BTreeSet<u32> = BTreeSet::new();
            for r in v.log {
                if let RecKind::SessionStart { session, .. } = &r.kind {
                    verdict.evaluations += 1;
                    if !seen.insert(*session) {
                        vio.push(viol("C15", "C15.id-unique", format!("session id {} was issued twice", session), "session-id".into()));
                    }
                }
            }
            let base: usize = v.sc.notes.get("base").and_then(|s| s.parse().ok()).unwrap_or(1);
            if v.rec.session_task.keys().any(|s| *s as usize > base - 1 + m) && v.sc.producers.iter().any(|p| p.iter().any(|x| matches!(x, PStep::Start { .. }))) {
                probes.hit("concurrent_session_creation");
            }
            // generated invoke ids: invokeid field of events coming from children without literal id
            let mut invoke_ids: BTreeSet<String> = BTreeSet::new();
            for r in v.log {
                if let RecKind::Snapshot { children, .. } = &r.kind {
                    for c in children {
                        invoke_ids.insert(c.clone());
                    }
                }
            }
            let kid_id = v.sc.notes.get("kid_id").cloned().unwrap_or_else(|| "kid".into());
            let generated_inv: Vec<&String> = invoke_ids.iter().filter(|i| **i != kid_id).collect();
            for g in &generated_inv {
                probes.hit("generated_invokeid");
                if !well_formed_generated(g, "run") {
                    vio.push(viol("C15", "C15.id-unique", format!("generated invoke id '{}' is not of the form stateid.platformid", g), "invokeid-form".into()));
                }
            }
            let mut all_gen: Vec<String> = gen_sendids.clone();
            all_gen.extend(generated_inv.iter().map(|s| s.to_string()));
            let set: BTreeSet<&String> = all_gen.iter().collect();
            // one generated invoke id appears once in the set by construction; send ids must be distinct among themselves
            // and from invoke ids
            if set.len() != all_gen.len() {
                vio.push(viol("C15", "C15.id-unique", format!("generated ids are not pairwise distinct: {:?}", all_gen), "generated-id-dup".into()));
            }
            for g in &gen_sendids {
                if !well_formed_generated(g, "run") {
                    vio.push(viol("C15", "C15.id-unique", format!("generated send id '{}' is not of the form stateid.platformid", g), "sendid-form".into()));
                }
            }
        }
        verdict.nontrivial = all_sessions.len() >= 3 && ext_sends >= 4;
        let mut seen = BTreeSet::new();
        vio.retain(|x| seen.insert((x.rule.clone(), x.signature.clone())));
        verdict.violations = vio;
        verdict
    }
}

fn dest_class(d: &str) -> &'static str {
    match d {
        "self" => "self",
        "parent" | "parent2" => "parent",
        "kid" | "kid2" => "invokeid",
        _ => "session",
    }
}

fn well_formed_generated(id: &str, state: &str) -> bool {
    match id.rsplit_once('.') {
        Some((s, n)) => s == state && !n.is_empty() && n.chars().all(|c| c.is_ascii_digit()),
        None => false,
    }
}
