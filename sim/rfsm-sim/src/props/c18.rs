//! C18 — partial or failed `.rfsm` I/O is reported, never silently accepted.
//!
//! No scheduler dimension: the "system" is FsmWriter + byte sink + FsmReader and the faults are the
//! point. For every generated image the fault positions are enumerated: every prefix length on the read
//! side (EOF or an I/O error at byte n; delivered in full, byte-wise and in random chunks), every
//! write/flush call position on the write side (error, short write, Interrupted).

use super::common::*;
use crate::engine::{Probes, Property, RunView, Tier, Verdict};
use crate::gen::{self, Dm, Profile};
use crate::scenario::{DocSrc, DriverOut, Knobs, Scenario};
use crate::util::Rng;
use rufsm::serializer::default_protocol_reader::DefaultProtocolReader;
use rufsm::serializer::default_protocol_writer::DefaultProtocolWriter;
use rufsm::serializer::fsm_reader::FsmReader;
use rufsm::serializer::fsm_writer::FsmWriter;
use std::collections::BTreeMap;
use std::io::{Error, ErrorKind, Read, Write};
use std::sync::{Arc, Mutex};

pub struct C18Prop;
pub static C18: C18Prop = C18Prop;

#[derive(Clone, Copy, PartialEq, Debug)]
enum Chunk {
    Full,
    Bytewise,
    Random(u64),
}

#[derive(Clone, Copy, PartialEq, Debug)]
enum End {
    Eof,
    Eio,
}

struct CutReader<'a> {
    data: &'a [u8],
    limit: usize,
    pos: usize,
    chunk: Chunk,
    end: End,
    rng: Rng,
    /// sprinkle ErrorKind::Interrupted (must be retried by the reader)
    interrupts: bool,
    tick: u64,
}

impl<'a> Read for CutReader<'a> {
    fn read(&mut self, buf: &mut [u8]) -> std::io::Result<usize> {
        self.tick += 1;
        if self.interrupts && self.tick % 3 == 0 {
            return Err(Error::new(ErrorKind::Interrupted, "EINTR"));
        }
        if self.pos >= self.limit {
            return match self.end {
                End::Eof => Ok(0),
                End::Eio => Err(Error::new(ErrorKind::Other, "simulated EIO")),
            };
        }
        if buf.is_empty() {
            return Ok(0);
        }
        let avail = self.limit - self.pos;
        let want = match self.chunk {
            Chunk::Full => buf.len(),
            Chunk::Bytewise => 1,
            Chunk::Random(_) => 1 + self.rng.below(7) as usize,
        };
        let n = want.min(avail).min(buf.len());
        buf[..n].copy_from_slice(&self.data[self.pos..self.pos + n]);
        self.pos += n;
        Ok(n)
    }
}

#[derive(Clone, Copy, PartialEq, Debug)]
enum WFault {
    None,
    /// write/flush call k fails with the given kind
    ErrorAt(usize, ErrorKind),
    /// write call k accepts only m bytes (if the buffer is longer)
    ShortAt(usize, usize),
    /// every write call accepts at most m bytes
    ShortAll(usize),
    InterruptedAt(usize),
    FlushFails,
}

struct FaultWriter {
    sink: Vec<u8>,
    calls: usize,
    fault: WFault,
    fired: bool,
    multi_byte_writes: usize,
}

impl Write for FaultWriter {
    fn write(&mut self, buf: &[u8]) -> std::io::Result<usize> {
        let k = self.calls;
        self.calls += 1;
        if buf.len() > 1 {
            self.multi_byte_writes += 1;
        }
        match self.fault {
            WFault::ErrorAt(at, kind) if at == k => {
                self.fired = true;
                return Err(Error::new(kind, "simulated write error"));
            }
            WFault::InterruptedAt(at) if at == k => {
                self.fired = true;
                return Err(Error::new(ErrorKind::Interrupted, "EINTR"));
            }
            WFault::ShortAt(at, m) if at == k && buf.len() > m && m > 0 => {
                self.fired = true;
                self.sink.extend_from_slice(&buf[..m]);
                return Ok(m);
            }
            WFault::ShortAll(m) if buf.len() > m && m > 0 => {
                self.fired = true;
                self.sink.extend_from_slice(&buf[..m]);
                return Ok(m);
            }
            _ => {}
        }
        self.sink.extend_from_slice(buf);
        Ok(buf.len())
    }

    fn flush(&mut self) -> std::io::Result<()> {
        let k = self.calls;
        self.calls += 1;
        match self.fault {
            WFault::FlushFails => {
                self.fired = true;
                Err(Error::new(ErrorKind::Other, "simulated flush error"))
            }
            WFault::ErrorAt(at, kind) if at == k => {
                self.fired = true;
                Err(Error::new(kind, "simulated flush error"))
            }
            _ => Ok(()),
        }
    }
}

/// (bytes in the sink, has_error, write calls, fault fired, multi byte writes)
fn write_image(fsm: &rufsm::fsm::Fsm, fault: WFault) -> (Vec<u8>, bool, usize, bool, usize) {
    let mut fw_sink = FaultWriter { sink: Vec::new(), calls: 0, fault, fired: false, multi_byte_writes: 0 };
    let has_error;
    {
        let w = DefaultProtocolWriter::new(&mut fw_sink);
        let mut fw = FsmWriter::new(Box::new(w));
        fw.write(fsm);
        fw.close();
        has_error = fw.writer.has_error();
    }
    (fw_sink.sink, has_error, fw_sink.calls, fw_sink.fired, fw_sink.multi_byte_writes)
}

#[derive(Debug, Clone, PartialEq)]
enum ReadRes {
    Ok,
    Err,
    Panic(String),
}

fn read_image(data: &[u8], limit: usize, chunk: Chunk, end: End, interrupts: bool) -> ReadRes {
    let seed = if let Chunk::Random(s) = chunk { s } else { 0 };
    let r = std::panic::catch_unwind(std::panic::AssertUnwindSafe(|| {
        let cr = CutReader { data, limit, pos: 0, chunk, end, rng: Rng::new(seed), interrupts, tick: 0 };
        let pr = DefaultProtocolReader::new(cr);
        let mut fr = FsmReader::new(Box::new(pr));
        fr.read().is_ok()
    }));
    match r {
        Ok(true) => ReadRes::Ok,
        Ok(false) => ReadRes::Err,
        Err(p) => {
            let msg = if let Some(s) = p.downcast_ref::<&str>() {
                s.to_string()
            } else if let Some(s) = p.downcast_ref::<String>() {
                s.clone()
            } else {
                "panic".into()
            };
            ReadRes::Panic(msg)
        }
    }
}

/// Runs inside the simulated execution (rFSM's statics are shuttle atomics under the verification cfg).
pub fn driver(sc: &Scenario, out: &Arc<Mutex<DriverOut>>) {
    let mut findings: Vec<String> = Vec::new();
    let mut counts: BTreeMap<String, u64> = BTreeMap::new();
    let mut bump = |k: &str, n: u64| *counts.entry(k.to_string()).or_insert(0) += n;
    let thorough = sc.notes.get("tier").map(|s| s == "thorough").unwrap_or(false);
    for d in &sc.docs {
        let fsm = match rufsm::scxml_reader::parse_from_xml(d.xml.clone()) {
            Ok(f) => f,
            Err(e) => {
                findings.push(format!("HARNESS|parse|{}", e));
                continue;
            }
        };
        // ---------- reference image
        let (image, err0, calls, _, multi) = write_image(&fsm, WFault::None);
        if err0 {
            findings.push("HARNESS|clean-write-has-error|".into());
            continue;
        }
        bump("images", 1);
        bump("image_bytes", image.len() as u64);
        bump("write_calls", calls as u64);
        if multi > 0 {
            bump("multi_byte_write_calls", multi as u64);
        }
        if image.iter().any(|b| *b >= 0x80) {
            bump("images_with_multibyte_utf8", 1);
        }
        // ---------- read side: the complete image must be accepted under every delivery pattern
        for (chunk, intr) in [(Chunk::Full, false), (Chunk::Bytewise, false), (Chunk::Random(7), false), (Chunk::Full, true), (Chunk::Random(11), true)] {
            bump("read_complete", 1);
            match read_image(&image, image.len(), chunk, End::Eof, intr) {
                ReadRes::Ok => {}
                other => findings.push(format!("C18.complete-rejected|complete-rejected:{:?}:{}|complete image rejected with {:?} delivery, interrupts={}: {:?}", chunk_tag(chunk), intr, chunk_tag(chunk), intr, other)),
            }
        }
        // ---------- read side: every prefix
        let stride_other = if image.len() <= 700 || thorough { 1 } else { 1 + image.len() / 500 };
        for n in 0..image.len() {
            let mut modes: Vec<(Chunk, End)> = vec![(Chunk::Full, End::Eof)];
            if n % stride_other == 0 {
                modes.push((Chunk::Full, End::Eio));
                modes.push((Chunk::Bytewise, End::Eof));
                modes.push((Chunk::Random(n as u64), End::Eio));
            }
            for (chunk, end) in modes {
                bump("read_prefix", 1);
                match read_image(&image, n, chunk, end, false) {
                    ReadRes::Err => {}
                    ReadRes::Ok => {
                        bump("truncated_ok", 1);
                        findings.push(format!("C18.truncated-ok|truncated-ok|image of {} bytes cut at byte {} ({:?}, {:?}) was read as Ok", image.len(), n, chunk_tag(chunk), end));
                    }
                    ReadRes::Panic(m) => {
                        bump("truncated_panic", 1);
                        let site = m.chars().take(48).collect::<String>();
                        findings.push(format!("C18.truncated-panic|truncated-panic:{}|image of {} bytes cut at byte {} ({:?}, {:?}) made the reader panic: {}", norm_site(&site), image.len(), n, chunk_tag(chunk), end, m));
                    }
                }
            }
        }
        // ---------- write side: every call position
        let stride_w = if calls <= 1500 || thorough { 1 } else { 1 + calls / 1200 };
        let mut k = 0;
        while k < calls {
            for kind in [ErrorKind::Other, ErrorKind::WriteZero] {
                bump("write_error_at", 1);
                let (_, has_err, _, fired, _) = write_image(&fsm, WFault::ErrorAt(k, kind));
                if fired && !has_err {
                    findings.push(format!("C18.write-error-hidden|write-error-hidden|write call {} of {} failed ({:?}) but has_error() is false after close()", k, calls, kind));
                }
                if kind == ErrorKind::Other && k % 3 != 0 {
                    break;
                }
            }
            {
                bump("short_write_at", 1);
                let (bytes, has_err, _, fired, _) = write_image(&fsm, WFault::ShortAt(k, 1));
                if fired {
                    bump("short_write_hit", 1);
                    if bytes != image && !has_err {
                        findings.push(format!("C18.short-write-corrupts|short-write|the sink accepted 1 byte of write call {}; the emitted image differs from the complete one ({} vs {} bytes) and has_error() is false", k, bytes.len(), image.len()));
                    }
                }
            }
            {
                bump("interrupted_at", 1);
                let (bytes, has_err, _, fired, _) = write_image(&fsm, WFault::InterruptedAt(k));
                if fired && bytes != image && !has_err {
                    findings.push(format!("C18.short-write-corrupts|interrupted|write call {} returned Interrupted; the emitted image differs from the complete one and has_error() is false", k));
                }
            }
            k += stride_w;
        }
        for m in [1usize, 3, 7] {
            bump("short_write_all", 1);
            let (bytes, has_err, _, fired, _) = write_image(&fsm, WFault::ShortAll(m));
            if fired {
                bump("short_write_hit", 1);
                if bytes != image && !has_err {
                    findings.push(format!("C18.short-write-corrupts|short-write|every write call accepted at most {} bytes; the emitted image differs from the complete one ({} vs {} bytes) and has_error() is false", m, bytes.len(), image.len()));
                }
            }
        }
        {
            bump("flush_fails", 1);
            let (_, has_err, _, fired, _) = write_image(&fsm, WFault::FlushFails);
            if fired && !has_err {
                findings.push("C18.write-error-hidden|flush-error-hidden|flush failed in close() but has_error() is false".into());
            }
        }
        // ---------- crash-restart composition: the sink crashes after byte n (keeps the prefix); re-open; read
        for n in [image.len() / 3, image.len() / 2, image.len() - 1] {
            bump("crash_restart", 1);
            let (bytes, _, _, _, _) = write_image(&fsm, WFault::None);
            let kept = &bytes[..n.min(bytes.len())];
            if read_image(kept, kept.len(), Chunk::Full, End::Eof, false) == ReadRes::Ok {
                findings.push(format!("C18.truncated-ok|truncated-ok|image written, crashed after byte {}, re-read as Ok", n));
            }
        }
    }
    let mut o = out.lock().unwrap();
    o.custom = findings;
    o.custom_counts = counts;
    o.completed_script = true;
}

fn chunk_tag(c: Chunk) -> &'static str {
    match c {
        Chunk::Full => "full",
        Chunk::Bytewise => "bytewise",
        Chunk::Random(_) => "random-chunks",
    }
}

fn norm_site(s: &str) -> String {
    s.chars().map(|c| if c.is_ascii_digit() { '#' } else { c }).collect::<String>().replace(' ', "_")
}

/// hand-written documents that cover the element kinds the generator does not produce
const EXTRA_DOCS: &[&str] = &[
    r##"<scxml xmlns="http://www.w3.org/2005/07/scxml" version="1.0" datamodel="rfsm-expression" name="extra-invoke" initial="a">
 <datamodel><data id="x" expr="1"/><data id="loooooooooooooooooong_name_of_more_than_15_bytes" expr="'äöü-€-multi-byte'"/></datamodel>
 <script>x = 2</script>
 <state id="a">
  <invoke id="kid" autoforward="true" namelist="x"><param name="p" expr="x + 1"/><content><scxml xmlns="http://www.w3.org/2005/07/scxml" datamodel="null" initial="k"><final id="k"/></scxml></content><finalize><assign location="x" expr="_event.data.v"/></finalize></invoke>
  <invoke srcexpr="'child.scxml'" idlocation="x" type="scxml"/>
  <transition event="done.invoke.kid" target="b"><send event="e" target="#_parent" delay="1.5s" id="s1" namelist="x"><content expr="x"/></send><cancel sendidexpr="'s1'"/></transition>
 </state>
 <state id="b"><onentry><foreach array="[1,2,3]" item="x" index="i"><log label="l" expr="x"/></foreach><if cond="x &lt; 2"><raise event="r"/><elseif cond="x == 2"/><send targetexpr="'#_internal'" typeexpr="'scxml'" eventexpr="'n'" delayexpr="'0s'" idlocation="x"><param name="a" location="x"/></send><else/><assign location="x">some text content</assign></if></onentry>
  <transition target="c" cond="In('b')" type="internal"/></state>
 <parallel id="c"><history id="h" type="deep"><transition target="d"/></history><state id="d"><final id="f"><donedata><param name="r" expr="x"/></donedata></final></state><state id="e2"><final id="f2"><donedata><content expr="'done'"/></donedata></final></state></parallel>
</scxml>"##,
];

impl Property for C18Prop {
    fn id(&self) -> &'static str {
        "C18"
    }
    fn level(&self) -> &'static str {
        "fault_enumeration"
    }
    fn workloads(&self, tier: Tier) -> u64 {
        match tier {
            Tier::Quick => 640,
            Tier::Thorough => 8_000,
        }
    }
    fn schedules_per_workload(&self, _tier: Tier) -> usize {
        1
    }
    fn max_steps(&self) -> usize {
        2_000_000
    }
    fn nontrivial_rule(&self) -> &'static str {
        "one evaluation = one reader or writer execution under one fault (prefix length x delivery pattern x EOF/EIO, or write-call position x fault kind); every prefix length of every image is enumerated with EOF under full delivery, the other delivery patterns and all write-call positions are enumerated for images up to 700 bytes / 1500 calls and strided above (all in the thorough tier); distinct_nontrivial = distinct images (by content hash) whose fault positions were enumerated"
    }
    fn required_probes(&self) -> Vec<&'static str> {
        vec!["read_prefix", "write_error_at", "short_write_hit", "interrupted_at", "flush_fails", "multi_byte_write_calls", "images_with_multibyte_utf8", "crash_restart"]
    }
    fn assumptions(&self) -> Vec<String> {
        vec![
            "Read/Write are the existing seams (type parameters of DefaultProtocolReader/Writer); no scheduler is involved".into(),
            "a short write is modelled as Write::write returning fewer bytes than offered, an interrupted call as ErrorKind::Interrupted; both are legal behaviours of std::io::Write".into(),
        ]
    }

    fn generate(&self, rng: &mut Rng, tier: Tier, index: u64) -> Scenario {
        let mut docs = Vec::new();
        if index % 40 == 0 {
            docs.push(DocSrc { name: "extra".into(), xml: EXTRA_DOCS[0].to_string(), via_rfsm: false, model: None });
        } else {
            let mut p = Profile::structural(if rng.chance(1, 5) { Dm::Null } else { Dm::Rfsm });
            p.max_states = rng.range(2, if tier == Tier::Quick { 7 } else { 12 }) as usize;
            p.content = 600;
            p.if_foreach = 250;
            p.raise = 200;
            p.selfsend = 150;
            p.donedata = 400;
            p.finals = 400;
            p.state_data = 200;
            p.errors = 50;
            let mut doc = super::sc::gen_doc(rng, &p, "img");
            // strings of varied length incl. multi-byte and > 15 bytes
            if rng.chance(1, 2) {
                doc.name = "näme-with-ümlauts-and-€-sign-longer-than-fifteen-bytes".into();
            }
            docs.push(DocSrc { name: "img".into(), xml: gen::render(&doc), via_rfsm: false, model: None });
        }
        let mut notes = BTreeMap::new();
        notes.insert("tier".into(), tier.name().to_string());
        Scenario { kind: "C18-iofault".into(), docs, files: vec![], script: vec![], producers: vec![], knobs: Knobs::default(), notes }
    }

    fn check(&self, v: &RunView, probes: &mut Probes) -> Verdict {
        let mut verdict = Verdict::default();
        if !outcome_gate(v, &mut verdict) {
            // a panic that escaped catch_unwind (e.g. in the writer) is C18's business
            if let crate::sim::Outcome::Panic { msg, location, .. } = v.outcome {
                verdict.discarded = None;
                verdict.violations.push(viol("C18", "C18.truncated-panic", format!("serializer panicked outside the guarded reader: {} at {}", msg, location), format!("panic:{}", norm_site(&msg.chars().take(40).collect::<String>()))));
            }
            return verdict;
        }
        for (k, n) in &v.out.custom_counts {
            probes.add(k, *n);
            if k.starts_with("read_") || k.starts_with("write_error") || k.starts_with("short_") || k.starts_with("interrupted") || k.starts_with("flush") || k.starts_with("crash") {
                verdict.evaluations += n;
            }
        }
        verdict.nontrivial = v.out.custom_counts.get("images").copied().unwrap_or(0) > 0;
        let mut seen = std::collections::BTreeSet::new();
        for f in &v.out.custom {
            let mut it = f.splitn(3, '|');
            let rule = it.next().unwrap_or("");
            let sig = it.next().unwrap_or("");
            let msg = it.next().unwrap_or("");
            if rule == "HARNESS" {
                verdict.discarded = Some(format!("harness: {} {}", sig, msg));
                continue;
            }
            if seen.insert((rule.to_string(), sig.to_string())) {
                verdict.violations.push(viol("C18", rule, msg.to_string(), sig.to_string()));
            }
        }
        verdict
    }
}
