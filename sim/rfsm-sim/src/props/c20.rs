//! C20 — the BasicHTTP processor turns each valid POST into exactly one event.
//!
//! Workload S5: 1-3 sessions on an executor built by the real `FsmExecutor::new_with_io_processor`
//! (server built and ignited by `BasicHTTPEventIOProcessor::new`). The TCP listener and `ureq` are
//! replaced by the simulated network (seams::http + net.rs): requests are dispatched in-process to
//! rocket, so routing, form decoding and `rocket_receive_event` are the real code. External clients
//! (driver and producer tasks) and the sessions themselves (`<send type="...BasicHTTPEventProcessor">`,
//! immediate and delayed) post concurrently; the network drops requests, duplicates them and loses
//! responses according to a per-run plan; sessions end while requests for them are in flight.
//!
//! Every request copy is handled by a worker task of its own, so handlers overlap like in rocket's pool.
//!
//! Oracle, per request copy that reached the server (span HttpDispatch..HttpHandled on its worker task):
//!  * valid (numeric id of a session that exists, `_scxmleventname` present): status 200 and exactly one
//!    event on exactly that session's external queue, named as posted, params = the other fields as
//!    strings, content = `_content`;
//!  * invalid (unknown / non-numeric session, no event name): status >= 400 and nothing enqueued;
//!  * every executed `<send>` of the basichttp type posts exactly one form to the location the target
//!    session published in `_ioprocessors`, with the event name and the textual form of each value, and
//!    that request is valid in the sense above; the receiving session sees name and `_event.data`.

use super::common::*;
use crate::engine::{Probes, Property, RunView, Tier, Verdict};
use crate::scenario::{DocSrc, EvSpec, Knobs, PStep, PVal, Scenario, Step};
use crate::util::Rng;
use rfsm_verif_seams::rec::{EvDesc, RecKind};
use std::collections::{BTreeMap, BTreeSet};

pub struct C20Prop;
pub static C20: C20Prop = C20Prop;

const NAME_KEY: &str = "_scxmleventname";
const CONTENT_KEY: &str = "_content";
const HTTP_TYPES: &[&str] = &["basichttp", "http://www.w3.org/TR/scxml/#BasicHTTPEventProcessor"];

/// decorations appended to the unique event name e<n>
const NAME_DECOR: &[&str] = &["", ".sub", " sp ace", "&a=b", "%25+x", "/\u{fc}\u{df}", "?q#f", ";,:", "=", "+", ".pad "];
/// (key, is structured for rocket's form-key grammar)
const PARAM_KEYS: &[&str] = &["a", "b", "k1", "k \u{e4}", "a&b", "p=q", "per%cent", "plus+", "sl/ash", "A", "userId", "K1"];
const PARAM_VALUES: &[&str] = &["5", "str", "", "a b&c=d", "100%", "\u{fc}/?#+", "x=y", "1+1", " lead", "trail ", "  two words  ", " "];

fn xml_attr(s: &str) -> String {
    s.replace('&', "&amp;").replace('<', "&lt;").replace('>', "&gt;").replace('"', "&quot;")
}

#[derive(Clone, Debug)]
struct SendSpec {
    n: usize,
    from: usize,
    /// None = own published location
    to: Option<usize>,
    name: String,
    /// (key, expr, textual value)
    params: Vec<(String, String, String)>,
    /// (xml, textual)
    content: Option<(String, String)>,
    delayed: bool,
    typ: usize,
}

fn param_expr(rng: &mut Rng) -> (String, String) {
    match rng.below(5) {
        0 => ("x".into(), "5".into()),
        1 => ("s".into(), "str".into()),
        2 => ("x + 1".into(), "6".into()),
        _ => {
            let v = *rng.pick(PARAM_VALUES);
            (format!("'{}'", v), v.to_string())
        }
    }
}

fn send_xml(s: &SendSpec) -> String {
    let target = match s.to {
        None => "targetexpr=\"_ioprocessors.basichttp.location\"".to_string(),
        Some(_) => "targetexpr=\"_event.data.to\"".to_string(),
    };
    let mut body = String::new();
    for (k, e, _) in &s.params {
        body.push_str(&format!("<param name=\"{}\" expr=\"{}\"/>", xml_attr(k), xml_attr(e)));
    }
    if let Some((x, _)) = &s.content {
        body.push_str(x);
    }
    format!(
        "<script>mark('send', {})</script><send type=\"{}\" {} eventexpr=\"'{}'\"{}>{}</send>",
        s.n,
        HTTP_TYPES[s.typ],
        target,
        xml_attr(&s.name),
        if s.delayed { " delay=\"10ms\"" } else { "" },
        body
    )
}

fn peer_doc(k: usize, sends: &[SendSpec]) -> String {
    let mut s = String::new();
    s.push_str(&format!("<scxml xmlns=\"http://www.w3.org/2005/07/scxml\" version=\"1.0\" datamodel=\"rfsm-expression\" name=\"h{}\" initial=\"run\">\n", k + 1));
    s.push_str(" <datamodel><data id=\"x\" expr=\"5\"/><data id=\"s\" expr=\"'str'\"/></datamodel>\n <state id=\"run\">\n");
    s.push_str("  <onentry><script>mark('loc', _ioprocessors.basichttp.location)</script></onentry>\n");
    for sp in sends {
        s.push_str(&format!("  <transition event=\"k.{}\">{}</transition>\n", sp.n, send_xml(sp)));
    }
    s.push_str("  <transition event=\"ping\"><script>mark('pong')</script></transition>\n");
    s.push_str("  <transition event=\"fin\" target=\"done\"/>\n");
    s.push_str("  <transition event=\"error\"><script>mark('err', _event.name)</script></transition>\n");
    s.push_str("  <transition event=\"*\"><script>mark('got', _event.name, _event.data)</script></transition>\n");
    s.push_str(" </state>\n <final id=\"done\"/>\n</scxml>\n");
    s
}

fn gen_name(rng: &mut Rng, n: usize) -> String {
    format!("e{}{}", n, rng.pick(NAME_DECOR))
}

fn gen_pairs(rng: &mut Rng) -> (Vec<(String, String)>, Option<String>) {
    // (params, content)
    match rng.below(6) {
        0 => (vec![], None),
        1 => (vec![], Some(rng.pick(PARAM_VALUES).to_string())),
        5 => {
            let p = vec![(rng.pick(PARAM_KEYS).to_string(), rng.pick(PARAM_VALUES).to_string())];
            (p, Some(rng.pick(PARAM_VALUES).to_string()))
        }
        _ => {
            let mut keys: Vec<&str> = PARAM_KEYS.to_vec();
            let mut p = Vec::new();
            for _ in 0..rng.range(1, 3) {
                let i = rng.below(keys.len() as u64) as usize;
                let k = keys.remove(i);
                p.push((k.to_string(), rng.pick(PARAM_VALUES).to_string()));
            }
            (p, None)
        }
    }
}

impl Property for C20Prop {
    fn id(&self) -> &'static str {
        "C20"
    }
    fn workloads(&self, tier: Tier) -> u64 {
        match tier {
            Tier::Quick => 30_000,
            Tier::Thorough => 150_000,
        }
    }
    fn schedules_per_workload(&self, tier: Tier) -> usize {
        match tier {
            Tier::Quick => 3,
            Tier::Thorough => 6,
        }
    }
    fn max_steps(&self) -> usize {
        200_000
    }
    fn nontrivial_rule(&self) -> &'static str {
        "non-trivial: at least 3 request copies reached the server, at least one of them valid and one invalid or sent by a session; distinct = distinct (scenario hash, interleaving signature)"
    }
    fn required_probes(&self) -> Vec<&'static str> {
        vec![
            "post:valid",
            "post:unknown-session",
            "post:non-numeric-session",
            "post:no-name",
            "post:to-finished-session",
            "send:own-location",
            "send:peer-location",
            "send:delayed",
            "payload:none",
            "payload:params",
            "payload:content",
            "payload:params+content",
            "encoding:name",
            "encoding:param",
            "fault:drop-request",
            "fault:duplicate",
            "fault:drop-response",
            "received:data-seen",
            "concurrent:requests-overlap-session-work",
            "concurrent:handlers-overlap",
            "concurrent:session-started-during-requests",
        ]
    }
    fn assumptions(&self) -> Vec<String> {
        vec![
            "the TCP listener of rocket and the ureq client are replaced by the simulated network; ureq's encoding step is reproduced with the same form_urlencoded serializer it calls; rocket's routing, form decoding and the handler run for real through rocket's in-process dispatch".into(),
            "field names are distinct within one form and contain none of rocket's form-key separators ('.', '[', ']', ':'); event names and values are arbitrary non-empty text without single quotes".into(),
            "every request copy is handled by a task of its own (rocket's worker pool): handlers run concurrently with each other, with the sessions and with host tasks that start further sessions".into(),
            "a duplicated request (network retransmission) is two POSTs and yields two events; a dropped one yields none".into(),
        ]
    }

    fn generate(&self, rng: &mut Rng, tier: Tier, _index: u64) -> Scenario {
        let m = rng.range(1, 3) as usize;
        // session ids start at 1, 9 or 98: one-, two- and three-digit ids in the paths
        let base: u32 = *rng.pick(&[1u32, 1, 9, 98]);
        let mut n = 0usize;
        let nmax = if tier == Tier::Quick { 3 } else { 5 };
        let mut notes = BTreeMap::new();
        let mut docs = Vec::new();
        let mut triggers: Vec<(usize, EvSpec)> = Vec::new();
        for k in 0..m {
            let mut sends = Vec::new();
            for _ in 0..rng.range(0, nmax) {
                let to = if m > 1 && rng.chance(1, 2) {
                    let mut j = rng.below(m as u64) as usize;
                    if j == k {
                        j = (j + 1) % m;
                    }
                    Some(j)
                } else {
                    None
                };
                let name = gen_name(rng, n);
                let (params, content) = match rng.below(5) {
                    0 => (vec![], None),
                    1 => (vec![], Some(("<content>hello there</content>".to_string(), "hello there".to_string()))),
                    2 => (vec![], Some(("<content expr=\"x + 1\"/>".to_string(), "6".to_string()))),
                    _ => {
                        let mut keys: Vec<&str> = PARAM_KEYS.to_vec();
                        let mut p = Vec::new();
                        for _ in 0..rng.range(1, 3) {
                            let i = rng.below(keys.len() as u64) as usize;
                            let key = keys.remove(i);
                            let (e, t) = param_expr(rng);
                            p.push((key.to_string(), e, t));
                        }
                        (p, None)
                    }
                };
                let sp = SendSpec { n, from: k, to, name, params, content, delayed: rng.chance(1, 4), typ: rng.below(2) as usize };
                let mut ev = EvSpec::simple(&format!("k.{}", n));
                if let Some(j) = to {
                    ev.params.push(("to".into(), PVal::Str(format!("@loc:{}", j))));
                }
                triggers.push((k, ev));
                let mut expect: Vec<(String, String)> = vec![(NAME_KEY.to_string(), sp.name.clone())];
                for (key, _, t) in &sp.params {
                    expect.push((key.clone(), t.clone()));
                }
                if let Some((_, t)) = &sp.content {
                    expect.push((CONTENT_KEY.to_string(), t.clone()));
                }
                notes.insert(
                    format!("send.{}", n),
                    serde_json::to_string(&(k, to.map(|j| j as i64).unwrap_or(-1), sp.delayed, expect)).unwrap(),
                );
                sends.push(sp);
                n += 1;
            }
            docs.push(DocSrc { name: format!("h{}", k + 1), xml: peer_doc(k, &sends), via_rfsm: false, model: None });
        }
        // external posts
        let mut posts: Vec<(String, Vec<(String, String)>)> = Vec::new();
        for _ in 0..rng.range(2, if tier == Tier::Quick { 5 } else { 8 }) {
            let (params, content) = gen_pairs(rng);
            let mut pairs: Vec<(String, String)> = Vec::new();
            let kind = rng.below(8);
            let url = match kind {
                0 => format!("@base/scxml/{}", *rng.pick(&[0u32, 77, 950, 4000000000, base + 20, if base > 1 { base / 10 } else { 0 }])),
                1 => format!("@base/scxml/{}", *rng.pick(&["abc", "1x", "-1", "1.0"])),
                _ => format!("@loc:{}", rng.below(m as u64)),
            };
            if kind != 2 {
                pairs.push((NAME_KEY.to_string(), gen_name(rng, n)));
            } else {
                pairs.push(("rid".to_string(), n.to_string()));
            }
            n += 1;
            pairs.extend(params);
            if let Some(c) = content {
                pairs.push((CONTENT_KEY.to_string(), c));
            }
            // the position of the name field in the form must not matter
            if rng.chance(1, 2) && pairs.len() > 1 {
                let f = pairs.remove(0);
                let at = rng.below(pairs.len() as u64 + 1) as usize;
                pairs.insert(at, f);
            }
            posts.push((url, pairs));
        }
        let mut script: Vec<Step> = (0..m).map(|d| Step::Start { doc: d }).collect();
        script.push(Step::Quiesce); // locations are published (mark 'loc') before anybody uses them
        let nprod = rng.range(1, 2) as usize;
        let mut producers: Vec<Vec<PStep>> = vec![Vec::new(); nprod];
        let mut driver_steps: Vec<Step> = Vec::new();
        for (k, ev) in triggers {
            match rng.below(3) {
                0 => driver_steps.push(Step::Send { sess: k, ev }),
                _ => {
                    let p = rng.below(nprod as u64) as usize;
                    producers[p].push(PStep::Send { sess: k, ev });
                }
            }
        }
        for (url, pairs) in posts {
            match rng.below(3) {
                0 => driver_steps.push(Step::HttpPost { url, pairs }),
                _ => {
                    let p = rng.below(nprod as u64) as usize;
                    producers[p].push(PStep::HttpPost { url, pairs });
                }
            }
        }
        // a session ends while requests are around
        if rng.chance(1, 3) {
            let k = rng.below(m as u64) as usize;
            let ev = EvSpec::simple("fin");
            if rng.chance(1, 2) {
                let at = rng.below(driver_steps.len() as u64 + 1) as usize;
                driver_steps.insert(at, Step::Send { sess: k, ev });
            } else {
                let p = rng.below(nprod as u64) as usize;
                let at = rng.below(producers[p].len() as u64 + 1) as usize;
                producers[p].insert(at, PStep::Send { sess: k, ev });
            }
        }
        // a host task starts one more session while requests are being handled (start_fsm and the handler both
        // take the executor state)
        let late = rng.chance(1, 2);
        if late {
            docs.push(DocSrc { name: format!("h{}", m + 1), xml: peer_doc(m, &[]), via_rfsm: false, model: None });
            let p = rng.below(nprod as u64) as usize;
            producers[p].push(PStep::Start { doc: m });
            notes.insert("late".into(), "1".into());
        }
        for p in producers.iter_mut() {
            rng.shuffle(p);
        }
        rng.shuffle(&mut driver_steps);
        script.push(Step::Producers { ids: (0..nprod).collect() });
        script.extend(driver_steps);
        script.push(Step::DrainTimers { max: 8 });
        script.push(Step::Quiesce);
        script.push(Step::Ping);
        script.push(Step::Quiesce);
        // network fault plan
        let faulty = rng.chance(2, 3);
        let plan: Vec<String> = (0..8)
            .map(|_| if faulty && rng.chance(1, 4) { (1 + rng.below(3)).to_string() } else { "0".to_string() })
            .collect();
        notes.insert("net_plan".into(), plan.join(","));
        notes.insert("m".into(), m.to_string());
        Scenario { kind: "S5-http".into(), docs, files: vec![], script, producers, knobs: Knobs { snapshots: false, id_base: base, ..Default::default() }, notes }
    }

    fn check(&self, v: &RunView, probes: &mut Probes) -> Verdict {
        let mut verdict = Verdict::default();
        if !outcome_gate(v, &mut verdict) {
            return verdict;
        }
        let mut vio = Vec::new();
        let sid_of_chan: BTreeMap<usize, u32> = v.rec.session_chan.iter().map(|(s, c)| (*c, *s)).collect();
        // ---- requests
        struct Post {
            url: String,
            pairs: Vec<(String, String)>,
            fate: u8,
            session: u32,
        }
        let mut posts: BTreeMap<u64, Post> = BTreeMap::new();
        for r in v.log {
            if let RecKind::HttpPost { req, url, pairs, fate } = &r.kind {
                posts.insert(*req, Post { url: url.clone(), pairs: pairs.clone(), fate: *fate, session: r.session });
                match *fate {
                    1 => probes.hit("fault:drop-request"),
                    2 => probes.hit("fault:duplicate"),
                    3 => probes.hit("fault:drop-response"),
                    _ => {}
                }
            }
        }
        // when did sessions leave 'run' (seq of SessionEnd)
        let mut ended_at: BTreeMap<u32, u64> = BTreeMap::new();
        for r in v.log {
            if let RecKind::SessionEnd { session } = &r.kind {
                ended_at.insert(*session, r.seq);
            }
        }
        // ---- spans on the net task
        let mut copies_reached = 0u64;
        let mut valid_seen = 0u64;
        let mut other_seen = 0u64;
        // (session, name) -> number of events enqueued with status 200, expected data rendering
        let mut delivered: BTreeMap<(u32, String), (u64, String)> = BTreeMap::new();
        let mut i = 0usize;
        while i < v.log.len() {
            let r = &v.log[i];
            if let RecKind::HttpDispatch { req, copy, path } = &r.kind {
                let net_task = r.task;
                let post = match posts.get(req) {
                    Some(p) => p,
                    None => {
                        i += 1;
                        continue;
                    }
                };
                // find the end of the span
                let mut j = i + 1;
                let mut status: Option<u16> = None;
                let mut sends: Vec<(usize, Option<EvDesc>, bool)> = Vec::new();
                let mut foreign_between = false;
                let mut other_handler_between = false;
                while j < v.log.len() {
                    let q = &v.log[j];
                    if q.task == net_task {
                        match &q.kind {
                            RecKind::HttpHandled { req: r2, copy: c2, status: st, .. } if r2 == req && c2 == copy => {
                                status = Some(*st);
                                break;
                            }
                            RecKind::HttpDispatch { .. } => break,
                            RecKind::Send { chan, ev, ok, .. } => sends.push((*chan, ev.clone(), *ok)),
                            _ => {}
                        }
                    } else if q.session != 0 {
                        foreign_between = true;
                    } else if matches!(q.kind, RecKind::HttpDispatch { .. } | RecKind::HttpHandled { .. }) {
                        other_handler_between = true;
                    }
                    j += 1;
                }
                if path == "<unreachable>" {
                    // the URL does not designate the server: judged below for <send>, nothing to judge here
                    i += 1;
                    continue;
                }
                copies_reached += 1;
                if other_handler_between {
                    probes.hit("concurrent:handlers-overlap");
                }
                if foreign_between {
                    probes.hit("concurrent:requests-overlap-session-work");
                }
                verdict.evaluations += 1;
                let status = match status {
                    Some(s) => s,
                    None => {
                        i += 1;
                        continue;
                    }
                };
                let sid_txt = path.strip_prefix("/scxml/").unwrap_or("");
                let sid: Option<u32> = if !sid_txt.is_empty() && sid_txt.chars().all(|c| c.is_ascii_digit()) { sid_txt.parse().ok() } else { None };
                let known = sid.map(|s| v.rec.session_chan.contains_key(&s)).unwrap_or(false);
                let name: Option<&String> = post.pairs.iter().find(|(k, _)| k == NAME_KEY).map(|(_, val)| val);
                let content: Option<String> = post.pairs.iter().find(|(k, _)| k == CONTENT_KEY).map(|(_, val)| format!("'{}'", val));
                let mut params: Vec<(String, String)> = post.pairs.iter().filter(|(k, _)| k != NAME_KEY && k != CONTENT_KEY).map(|(k, val)| (k.clone(), format!("'{}'", val))).collect();
                params.sort();
                let ok_sends: Vec<&(usize, Option<EvDesc>, bool)> = sends.iter().filter(|s| s.2).collect();
                let from_session = post.session != 0;
                if name.map(|n| n.len() > 2 && !n.chars().skip(1).all(|c| c.is_ascii_alphanumeric())).unwrap_or(false) {
                    probes.hit("encoding:name");
                }
                if params.iter().any(|(k, val)| !k.chars().all(|c| c.is_ascii_alphanumeric()) || !val.trim_matches('\'').chars().all(|c| c.is_ascii_alphanumeric())) {
                    probes.hit("encoding:param");
                }
                if known && name.is_some() {
                    valid_seen += 1;
                    probes.hit("post:valid");
                    let sid = sid.unwrap();
                    let want_chan = v.rec.session_chan.get(&sid).copied();
                    let finished_before = ended_at.get(&sid).map(|e| *e < r.seq).unwrap_or(false);
                    if finished_before {
                        probes.hit("post:to-finished-session");
                    }
                    match (params.is_empty(), content.is_some()) {
                        (true, false) => probes.hit("payload:none"),
                        (false, false) => probes.hit("payload:params"),
                        (true, true) => probes.hit("payload:content"),
                        (false, true) => probes.hit("payload:params+content"),
                    }
                    let who = if from_session { "send" } else { "client" };
                    if status != 200 {
                        // legal only if the queue is gone (session finished) and nothing was enqueued
                        let queue_gone = finished_before && sends.iter().any(|s| !s.2) && ok_sends.is_empty();
                        if !queue_gone {
                            vio.push(viol("C20", "C20.status", format!("valid POST {} to session {} (event '{}') was answered {} and enqueued {} event(s)", post.url, sid, name.unwrap(), status, ok_sends.len()), format!("valid-post-status-{}:{}", status, who)));
                        }
                    } else {
                        if ok_sends.is_empty() {
                            vio.push(viol("C20", "C20.lost", format!("POST {} (event '{}') was answered 200 but no event was put on any queue", post.url, name.unwrap()), format!("lost:{}", who)));
                        }
                        if ok_sends.len() > 1 {
                            vio.push(viol("C20", "C20.duplicated", format!("one POST {} (event '{}') put {} events on queues", post.url, name.unwrap(), ok_sends.len()), format!("duplicated:{}", who)));
                        }
                        for (chan, ev, _) in ok_sends.iter().map(|x| (x.0, x.1.clone(), x.2)) {
                            if Some(chan) != want_chan {
                                vio.push(viol("C20", "C20.misrouted", format!("POST {} was put on the queue of session {:?}", post.url, sid_of_chan.get(&chan)), format!("misrouted:{}", who)));
                            }
                            if let Some(e) = ev {
                                let mut got_params = e.params.clone().unwrap_or_default();
                                got_params.sort();
                                if &e.name != name.unwrap() {
                                    vio.push(viol("C20", "C20.payload", format!("POST with {}='{}' enqueued an event named '{}'", NAME_KEY, name.unwrap(), e.name), format!("name:{}", who)));
                                }
                                if got_params != params {
                                    vio.push(viol("C20", "C20.payload", format!("POST '{}' with fields {:?} enqueued an event with params {:?}", name.unwrap(), params, got_params), format!("params:{}", who)));
                                }
                                if e.content != content {
                                    vio.push(viol("C20", "C20.payload", format!("POST '{}' with {}={:?} enqueued an event with content {:?}", name.unwrap(), CONTENT_KEY, content, e.content), format!("content:{}", who)));
                                }
                                if e.etype != "external" {
                                    vio.push(viol("C20", "C20.payload", format!("POST '{}' enqueued an event of type {}", name.unwrap(), e.etype), format!("etype:{}", who)));
                                }
                            }
                        }
                        let data = if !params.is_empty() {
                            format!("{{{}}}", params.iter().map(|(k, val)| format!("{}={}", k, val)).collect::<Vec<_>>().join(";"))
                        } else {
                            content.clone().unwrap_or_else(|| "null".to_string())
                        };
                        let ent = delivered.entry((sid, name.unwrap().clone())).or_insert((0, data));
                        ent.0 += 1;
                    }
                } else {
                    other_seen += 1;
                    if name.is_none() {
                        probes.hit("post:no-name");
                    } else if sid.is_none() {
                        probes.hit("post:non-numeric-session");
                    } else {
                        probes.hit("post:unknown-session");
                    }
                    let why = if name.is_none() { "no-name" } else if sid.is_none() { "non-numeric-session" } else { "unknown-session" };
                    if status < 400 {
                        vio.push(viol("C20", "C20.reject", format!("invalid POST {} ({}) was answered {}", post.url, why, status), format!("accepted:{}", why)));
                    }
                    if !ok_sends.is_empty() {
                        vio.push(viol("C20", "C20.reject", format!("invalid POST {} ({}) enqueued {} event(s)", post.url, why, ok_sends.len()), format!("enqueued:{}", why)));
                    }
                }
                // spans of concurrent handlers interleave: go on with the next record, not with the end of this span
                let _ = j;
            }
            i += 1;
        }
        // ---- <send> of the basichttp type
        let mut root_of_doc: BTreeMap<usize, u32> = BTreeMap::new();
        for (k, sid) in v.out.root_sessions.iter().enumerate() {
            if let Some(d) = v.out.root_docs.get(k) {
                root_of_doc.insert(*d, *sid);
            }
        }
        let mut executed: BTreeMap<usize, (u32, u64)> = BTreeMap::new();
        for r in v.log {
            if let RecKind::Mark { args, .. } = &r.kind {
                if args.first().map(|s| s.as_str()) == Some("'send'") {
                    if let Some(n) = args.get(1).and_then(|s| s.parse::<usize>().ok()) {
                        executed.insert(n, (r.session, r.seq));
                    }
                }
            }
        }
        let mut session_sends = 0u64;
        for (n, (from_sid, _seq)) in &executed {
            let note = match v.sc.notes.get(&format!("send.{}", n)) {
                Some(x) => x,
                None => continue,
            };
            let (_k, to, delayed, expect): (usize, i64, bool, Vec<(String, String)>) = match serde_json::from_str(note) {
                Ok(x) => x,
                Err(_) => continue,
            };
            let target_sid: u32 = if to < 0 { *from_sid } else { root_of_doc.get(&(to as usize)).copied().unwrap_or(0) };
            let name = &expect[0].1;
            let mine: Vec<(&u64, &Post)> = posts.iter().filter(|(_, p)| p.pairs.iter().any(|(k, val)| k == NAME_KEY && val == name)).collect();
            verdict.evaluations += 1;
            if to < 0 {
                probes.hit("send:own-location");
            } else {
                probes.hit("send:peer-location");
            }
            let sender_ended = ended_at.contains_key(from_sid);
            if mine.is_empty() {
                // a delayed send is dropped when its session ends first; an immediate one must be posted
                // unless the session raised an error event for it
                let errored = v.log.iter().any(|r| r.session == *from_sid && matches!(&r.kind, RecKind::IntRecv { ev } if ev.name.starts_with("error.")));
                if !(delayed && sender_ended) && !errored {
                    vio.push(viol("C20", "C20.send", format!("executed <send> {} (event '{}') posted nothing and raised no error", n, name), format!("send-not-posted:{}", if delayed { "delayed" } else { "immediate" })));
                }
                continue;
            }
            session_sends += 1;
            if delayed {
                probes.hit("send:delayed");
            }
            if mine.len() > 1 {
                vio.push(viol("C20", "C20.send", format!("executed <send> {} (event '{}') posted {} requests", n, name, mine.len()), "send-posted-twice".into()));
            }
            for (req, p) in &mine {
                if p.pairs != expect {
                    vio.push(viol("C20", "C20.send", format!("<send> {} posted the form {:?}, name and textual values are {:?}", n, p.pairs, expect), "send-form".into()));
                }
                if p.fate == 1 {
                    continue;
                }
                // it must reach the server and land in the target session
                let disp: Vec<&str> = v.log.iter().filter_map(|r| match &r.kind {
                    RecKind::HttpDispatch { req: r2, path, .. } if r2 == *req => Some(path.as_str()),
                    _ => None,
                }).collect();
                let want_path = format!("/scxml/{}", target_sid);
                for d in disp {
                    if d != want_path {
                        vio.push(viol("C20", "C20.send", format!("<send> {} addressed to the location published by session {} went to {} ({})", n, target_sid, p.url, d), format!("send-location:{}", if to < 0 { "own" } else { "peer" })));
                    }
                }
            }
        }
        // ---- what the receiving sessions saw
        let mut pong: BTreeSet<u32> = BTreeSet::new();
        let mut got: BTreeMap<(u32, String), Vec<String>> = BTreeMap::new();
        for r in v.log {
            if let RecKind::Mark { args, .. } = &r.kind {
                match args.first().map(|s| s.as_str()) {
                    Some("'pong'") => {
                        pong.insert(r.session);
                    }
                    Some("'got'") => {
                        let name = args.get(1).map(|s| s.trim_matches('\'').to_string()).unwrap_or_default();
                        got.entry((r.session, name)).or_default().push(args.get(2).cloned().unwrap_or_default());
                    }
                    _ => {}
                }
            }
        }
        for ((sid, name), (count, data)) in &delivered {
            if !pong.contains(sid) {
                continue; // the session ended before it drained its queue
            }
            verdict.evaluations += 1;
            let seen = got.get(&(*sid, name.clone())).cloned().unwrap_or_default();
            if seen.len() as u64 != *count {
                vio.push(viol("C20", "C20.received", format!("session {} processed event '{}' {} time(s), {} POST(s) were acknowledged", sid, name, seen.len(), count), format!("received-count:{}", if seen.len() as u64 > *count { "more" } else { "less" })));
            }
            for d in &seen {
                probes.hit("received:data-seen");
                if d != data {
                    vio.push(viol("C20", "C20.received", format!("session {} saw _event.data = {} for event '{}', the form fields were {}", sid, d, name, data), "received-data".into()));
                }
            }
        }
        // events nobody posted
        for ((sid, name), seen) in &got {
            if name.starts_with('e') && !delivered.contains_key(&(*sid, name.clone())) && !seen.is_empty() {
                vio.push(viol("C20", "C20.received", format!("session {} processed event '{}' that no acknowledged POST carried", sid, name), "received-unposted".into()));
            }
        }
        if v.sc.notes.contains_key("late") && copies_reached > 0 {
            probes.hit("concurrent:session-started-during-requests");
        }
        verdict.nontrivial = copies_reached >= 3 && valid_seen >= 1 && (other_seen >= 1 || session_sends >= 1);
        let mut seen = BTreeSet::new();
        vio.retain(|x| seen.insert((x.rule.clone(), x.signature.clone())));
        verdict.violations = vio;
        verdict
    }
}
