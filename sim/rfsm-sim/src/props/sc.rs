//! Properties decided by refinement against the reference interpreter on generated statecharts:
//! C01 (legal configuration), C02 (optimal transition set, order, determinism), C03 (run to
//! completion), C06 (history), C07 (done events / termination), C08 (executable content),
//! C09 (In(), system variables, binding). One engine, one workload generator with a profile per
//! property, one comparison; each property reports the divergence families it owns plus its own
//! history checkers.

use super::common::*;
use crate::engine::{Probes, Property, RunView, Tier, Verdict};
use crate::gen::{self, Dm, Doc, Profile};
use crate::refsm::{Model, Obs, Quirks};
use crate::scenario::{DocSrc, EvSpec, Knobs, PStep, PVal, Scenario, Step};
use crate::trace::{compare_t, doc_uses_history, legality, predict_full, real_trace};
use crate::util::{hash_str, mix2, Rng};
use std::cell::RefCell;
use std::collections::{BTreeMap, BTreeSet};

#[derive(Clone, Copy, PartialEq, Eq, Debug)]
pub enum Variant {
    C01,
    C02,
    C03,
    C06,
    C07,
    C08,
    C09,
}

pub struct ScProp {
    pub id: &'static str,
    pub v: Variant,
}

pub static C01: ScProp = ScProp { id: "C01", v: Variant::C01 };
pub static C02: ScProp = ScProp { id: "C02", v: Variant::C02 };
pub static C03: ScProp = ScProp { id: "C03", v: Variant::C03 };
pub static C06: ScProp = ScProp { id: "C06", v: Variant::C06 };
pub static C07: ScProp = ScProp { id: "C07", v: Variant::C07 };
pub static C08: ScProp = ScProp { id: "C08", v: Variant::C08 };
pub static C09: ScProp = ScProp { id: "C09", v: Variant::C09 };

thread_local! {
    /// C02 determinism: (scenario hash, input order hash) -> digest of the first trace seen
    static SEEN: RefCell<BTreeMap<(u64, u64), u64>> = const { RefCell::new(BTreeMap::new()) };
}

impl ScProp {
    fn families(&self) -> &'static [&'static str] {
        match self.v {
            Variant::C01 => &["config", "config-midstep"],
            Variant::C02 => &["enabled-set", "exit-order", "entry-order", "content-order", "config", "other"],
            Variant::C03 => &["macrostep", "internal-order", "error-event"],
            Variant::C06 => &["history-entry"],
            Variant::C07 => &["done-event", "termination"],
            Variant::C08 => &["content-order", "error-event", "data-value"],
            Variant::C09 => &["data-value", "config-midstep", "error-event"],
        }
    }

    fn profile(&self, rng: &mut Rng, tier: Tier) -> Profile {
        let dm = match self.v {
            Variant::C01 | Variant::C02 | Variant::C06 => {
                if rng.chance(1, 4) {
                    Dm::Null
                } else {
                    Dm::Rfsm
                }
            }
            Variant::C09 => match rng.below(5) {
                // the statement ranges over all three data models
                0 => Dm::Null,
                1 => Dm::Ecma,
                _ => Dm::Rfsm,
            },
            Variant::C08 => {
                if rng.chance(1, 5) {
                    Dm::Ecma
                } else {
                    Dm::Rfsm
                }
            }
            _ => {
                if rng.chance(1, 8) {
                    Dm::Ecma
                } else {
                    Dm::Rfsm
                }
            }
        };
        let mut p = Profile::structural(dm);
        p.max_states = if tier == Tier::Quick { rng.range(4, 10) as usize } else { rng.range(4, 14) as usize };
        match self.v {
            Variant::C01 => {
                p.parallel = 450;
                p.history = 350;
                p.multi_target = 300;
                p.internal = 300;
                p.content = 300;
            }
            Variant::C02 => {
                p.guards = 450;
                p.eventless = 200;
                p.parallel = 400;
            }
            Variant::C03 => {
                p.raise = 400;
                // error events are internal events too: two failing blocks in one microstep queue two of them
                p.errors = 60;
                // invokes that fail to start raise their error event when the macrostep ends: it is handled
                // before the next external event
                p.bad_invoke = 120;
                p.eventless = 250;
                p.selfsend = 150;
                p.content = 800;
                p.parallel = 200;
                p.history = 100;
            }
            Variant::C06 => {
                p.history = 900;
                p.parallel = 400;
                p.max_states = p.max_states.max(6);
                p.finals = 50;
                p.top_final = 0;
            }
            Variant::C07 => {
                p.finals = 600;
                p.top_final = 500;
                p.parallel = 450;
                p.donedata = 400;
                p.raise = 100;
            }
            Variant::C08 => {
                p.state_data = 100;
                p.content = 950;
                p.if_foreach = 350;
                p.errors = 120;
                p.raise = 200;
                p.parallel = 150;
                p.history = 100;
            }
            Variant::C09 => {
                p.guards = 600;
                p.content = 800;
                p.readonly_writes = 80;
                p.event_fields = 500;
                p.state_data = 400;
                p.late = rng.chance(1, 2) && dm != Dm::Null;
                p.parallel = 350;
            }
        }
        p
    }

    fn quirks(&self) -> Quirks {
        Quirks::rfsm()
    }
}

pub fn gen_doc(rng: &mut Rng, p: &Profile, name: &str) -> Doc {
    for _ in 0..200 {
        let d = gen::generate(rng, p, name);
        let m = Model::new(&d);
        if m.validate().is_ok() {
            return d;
        }
    }
    // fall back to a trivially valid document
    let mut q = p.clone();
    q.max_states = 2;
    q.history = 0;
    q.multi_target = 0;
    q.parallel = 0;
    for _ in 0..200 {
        let d = gen::generate(rng, &q, name);
        if Model::new(&d).validate().is_ok() {
            return d;
        }
    }
    Doc::default()
}

fn event_pool(doc: &Doc) -> Vec<String> {
    // descriptors used in the document (stripped), plus a few names that match by prefix or not at all
    let mut v: BTreeSet<String> = BTreeSet::new();
    fn rec(n: &gen::Node, v: &mut BTreeSet<String>) {
        for t in &n.trans {
            for e in &t.events {
                let e = e.trim_end_matches(".*").trim_end_matches('.').to_string();
                if e != "*" && !e.starts_with("done.") && !e.starts_with("error") && !e.is_empty() {
                    v.insert(e);
                }
            }
        }
        for c in &n.children {
            rec(c, v);
        }
    }
    rec(&doc.root, &mut v);
    let mut out: Vec<String> = v.into_iter().collect();
    for e in ["a", "b", "a.b.c.d", "zzz", "ab.x"] {
        out.push(e.to_string());
    }
    out
}

impl Property for ScProp {
    fn id(&self) -> &'static str {
        self.id
    }

    fn workloads(&self, tier: Tier) -> u64 {
        match tier {
            Tier::Quick => 60_000,
            Tier::Thorough => 500_000,
        }
    }

    fn schedules_per_workload(&self, tier: Tier) -> usize {
        match (self.v, tier) {
            (Variant::C03, Tier::Quick) | (Variant::C02, Tier::Quick) => 3,
            (Variant::C03, Tier::Thorough) | (Variant::C02, Tier::Thorough) => 4,
            (_, Tier::Quick) => 2,
            (_, Tier::Thorough) => 3,
        }
    }

    fn max_steps(&self) -> usize {
        120_000
    }

    fn nontrivial_rule(&self) -> &'static str {
        match self.v {
            Variant::C01 => "non-trivial: the session took at least 3 microsteps and the document contains a parallel or history state or a multi-target/internal transition; distinct = distinct (document, event order) pairs x interleaving signature",
            Variant::C02 => "non-trivial: at least 3 microsteps, at least one selection in which more than one transition was a candidate (conflict, guard false, or ancestor fallback); distinct = distinct (scenario hash, interleaving signature)",
            Variant::C03 => "non-trivial: at least one macrostep consumed an internal event or an eventless transition; distinct = distinct (scenario hash, interleaving signature)",
            Variant::C06 => "non-trivial: a history state was re-entered with a recorded (non-default) value; distinct = distinct (scenario hash, interleaving signature)",
            Variant::C07 => "non-trivial: a done.state event was raised or the session ended in a top-level final state / by cancel with states active; distinct = distinct (scenario hash, interleaving signature)",
            Variant::C08 => "non-trivial: at least 5 marks from executable content were compared and an <if>, <foreach> or error site executed; distinct = distinct (scenario hash, interleaving signature)",
            Variant::C09 => "non-trivial: at least one In() value, _event field or bound data value was compared mid-microstep; distinct = distinct (scenario hash, interleaving signature)",
        }
    }

    fn required_probes(&self) -> Vec<&'static str> {
        match self.v {
            Variant::C01 => vec!["parallel_active", "history_reentered", "cancelled_midway", "snapshots_checked"],
            Variant::C02 => vec!["preemption_or_conflict", "guard_false", "eventless_taken"],
            Variant::C03 => vec!["internal_event_consumed", "eventless_taken", "external_queued_during_macrostep"],
            Variant::C06 => vec!["history_reentered", "history_default_taken"],
            Variant::C07 => vec!["done_state_raised", "top_final_reached", "cancelled_midway"],
            Variant::C08 => vec!["if_executed", "foreach_executed", "error_event_seen"],
            Variant::C09 => vec!["in_true_seen", "late_binding_doc", "readonly_write_attempted", "in_evaluated_while_child_runs"],
        }
    }

    fn assumptions(&self) -> Vec<String> {
        vec![
            "the reference interpreter (sim/rfsm-sim/src/refsm.rs) implements the W3C algorithm for the generator's mini expression language; it is trusted code, calibrated on the unchanged tree".into(),
            "documents are bounded (<= 14 states, depth <= 4) and generated, not enumerated".into(),
            "the reference consumes external events in the order the real session dequeued them; everything else is predicted".into(),
        ]
    }

    fn generate(&self, rng: &mut Rng, tier: Tier, _index: u64) -> Scenario {
        if self.v == Variant::C09 && rng.chance(1, 12) {
            return in_after_invoke_scenario(rng);
        }
        let p = self.profile(rng, tier);
        let nev = rng.range(3, if tier == Tier::Quick { 10 } else { 14 }) as usize;
        let mut doc;
        let mut evs: Vec<EvSpec>;
        let mut tries = 0;
        loop {
            doc = gen_doc(rng, &p, "sc");
            let pool = event_pool(&doc);
            evs = Vec::new();
            for k in 0..nev {
                let mut e = EvSpec::simple(rng.pick(&pool[..]).as_str());
                if self.v == Variant::C09 && rng.chance(1, 2) {
                    e.params.push(("k".into(), PVal::Int(k as i64)));
                }
                evs.push(e);
            }
            // pre-flight: documents that legitimately diverge (e.g. a done.state handler that re-enters
            // the final state) are rejected, they are generator rejects and not evaluations
            let inputs: Vec<crate::refsm::EvIn> = evs.iter().map(|e| crate::refsm::EvIn::named(&e.name, "external")).collect();
            let pre = predict_full(&doc, 1, &inputs, &Quirks::rfsm());
            tries += 1;
            if !pre.diverged || tries > 20 {
                break;
            }
        }
        let mut script = vec![Step::Start { doc: 0 }];
        let mut producers: Vec<Vec<PStep>> = Vec::new();
        let style = rng.below(3);
        let cancel_at = if matches!(self.v, Variant::C01 | Variant::C07) && rng.chance(1, 4) { Some(rng.below(nev as u64 + 1) as usize) } else { None };
        match style {
            0 => {
                // one event per quiescence
                for (k, e) in evs.iter().enumerate() {
                    if cancel_at == Some(k) {
                        script.push(Step::Cancel { sess: 0 });
                    }
                    script.push(Step::Send { sess: 0, ev: e.clone() });
                    script.push(Step::Quiesce);
                }
            }
            1 => {
                // burst: all events queued while the session is still starting
                for (k, e) in evs.iter().enumerate() {
                    if cancel_at == Some(k) {
                        script.push(Step::Cancel { sess: 0 });
                    }
                    script.push(Step::Send { sess: 0, ev: e.clone() });
                }
                script.push(Step::Quiesce);
            }
            _ => {
                // two producers racing with the macrosteps
                let mut a = Vec::new();
                let mut b = Vec::new();
                for (k, e) in evs.iter().enumerate() {
                    let st = PStep::Send { sess: 0, ev: e.clone() };
                    if k % 2 == 0 {
                        a.push(st);
                    } else {
                        b.push(st);
                    }
                    if cancel_at == Some(k) {
                        a.push(PStep::Cancel { sess: 0 });
                    }
                }
                producers.push(a);
                producers.push(b);
                script.push(Step::Producers { ids: vec![0, 1] });
                script.push(Step::Quiesce);
            }
        }
        script.push(Step::DrainTimers { max: 8 });
        let mut notes = BTreeMap::new();
        notes.insert("style".into(), style.to_string());
        if cancel_at.is_some() {
            notes.insert("cancel".into(), "1".into());
        }
        let xml = gen::render(&doc);
        Scenario {
            kind: format!("S1-statechart-{:?}", self.v),
            docs: vec![DocSrc { name: "sc".into(), xml, via_rfsm: rng.chance(1, 10), model: Some(doc) }],
            files: vec![],
            script,
            producers,
            knobs: Knobs { snapshots: self.v == Variant::C01 || rng.chance(2, 3), ..Default::default() },
            notes,
        }
    }

    /// Document shrinking: drop transitions, entry/exit blocks, single content items and whole sub-states;
    /// a candidate is only offered if it is still a conformant document for the reference.
    fn shrink_docs(&self, sc: &Scenario) -> Vec<Scenario> {
        let doc = match sc.docs.first().and_then(|d| d.model.as_ref()) {
            Some(d) => d,
            None => return vec![],
        };
        let mut out = Vec::new();
        for cand in shrink_doc_candidates(doc) {
            if crate::refsm::Model::new(&cand).validate().is_err() {
                continue;
            }
            let mut c = sc.clone();
            c.docs[0].xml = crate::gen::render(&cand);
            c.docs[0].model = Some(cand);
            out.push(c);
        }
        out
    }

    fn check(&self, v: &RunView, probes: &mut Probes) -> Verdict {
        if v.sc.kind == "S4-in-after-invoke" {
            return check_in_after_invoke(v, probes);
        }
        let mut verdict = Verdict::default();
        if let crate::sim::Outcome::StepBound { .. } = v.outcome {
            // a document may legitimately never come to rest (e.g. done.state.X re-entering X whose initial
            // child is final): then the reference diverges on the same inputs. If it does not, the session
            // spins on its own - that is C12's business, recorded as such
            if let (Some(sid), Some(doc)) = (v.out.root_sessions.first().copied().filter(|s| *s != 0), v.sc.docs[0].model.as_ref()) {
                let real = real_trace(v, sid);
                let pred = predict_full(doc, sid, &real.inputs, &self.quirks());
                if pred.diverged {
                    verdict.discarded = Some("diverging document: the reference exceeds the microstep cap on the same inputs".into());
                } else {
                    verdict.other_rules.push("C12.wedge:step-bound-although-the-reference-terminates".into());
                    verdict.discarded = Some("step bound although the reference terminates (C12)".into());
                }
                return verdict;
            }
        }
        if !outcome_gate(v, &mut verdict) {
            return verdict;
        }
        let sid = match v.out.root_sessions.first() {
            Some(s) if *s != 0 => *s,
            _ => {
                verdict.discarded = Some(format!("harness: session not started: {:?}", v.out.start_errors));
                return verdict;
            }
        };
        let doc = match v.sc.docs[0].model.as_ref() {
            Some(d) => d,
            None => {
                verdict.discarded = Some("harness: no model".into());
                return verdict;
            }
        };
        let real = real_trace(v, sid);
        let pred = predict_full(doc, sid, &real.inputs, &self.quirks());
        let term_start = pred.term_start;
        let (expected, diverged) = (pred.obs, pred.diverged);
        if diverged {
            verdict.discarded = Some("reference exceeded the microstep cap (diverging document)".into());
            return verdict;
        }
        let uses_history = doc_uses_history(doc);
        verdict.evaluations = real.obs.len() as u64;
        let fams = self.families();
        let mut foreign: Option<&'static str> = None;
        if let Some(d) = compare_t(&expected, &real, v.sc.knobs.snapshots, uses_history, term_start) {
            let rule = if fams.contains(&d.family) { format!("{}.{}", self.id, d.family) } else { format!("{}.{}", self.id, d.base) };
            let msg = format!(
                "trace diverges from the W3C reference at observation {} (seq {}): expected {:?}, got {:?}; preceding:\n{}",
                d.index,
                d.seq,
                d.expected,
                d.got,
                d.context.join("\n")
            );
            // a divergence in the termination phase also belongs to the property that owns its kind (In() in an
            // onexit handler is C09's business also when the handler runs because the session ends)
            let owned = fams.contains(&d.family) || (d.family == "termination" && fams.contains(&d.base) && d.base != "termination");
            if owned {
                // findings are per data model: what the ECMAScript binding does is not what rfsm-expression does
                let dm_tag = if doc.dm == Dm::Ecma { ":ecmascript" } else { "" };
                let fam = if fams.contains(&d.family) { d.family.to_string() } else { format!("{}-at-termination", d.base) };
                let sig = format!("{}:{}{}", fam, sig_of(&d.expected, &d.got), dm_tag);
                verdict.violations.push(viol(self.id, &rule, msg, sig));
            } else {
                // not this property's rule family: remember it, but still evaluate this property's own
                // history checkers (they do not depend on the prediction)
                verdict.other_rules.push(format!("refinement.{}", d.family));
                if std::env::var("VERIF_DEBUG_DIVERGENCE").is_ok() {
                    eprintln!("FOREIGN DIVERGENCE {}: {}", d.family, msg);
                }
                foreign = Some(d.family);
            }
        }

        // ---- property specific history checkers and probes
        let m = Model::new(doc);
        let mut microsteps = 0usize;
        let mut marks = 0usize;
        let mut int_consumed = 0usize;
        let mut done_raised = 0usize;
        for o in &real.obs {
            match o {
                Obs::Config(_) => microsteps += 1,
                Obs::Mark { .. } => marks += 1,
                Obs::IntRecv(n) => {
                    int_consumed += 1;
                    if n.starts_with("error.") {
                        probes.hit("error_event_seen");
                    }
                }
                Obs::IntSend(_) => done_raised += 1,
                _ => {}
            }
        }
        if !v.sc.knobs.snapshots {
            microsteps = real.obs.iter().filter(|o| matches!(o, Obs::Enabled(n) if *n > 0)).count();
        }
        if int_consumed > 0 {
            probes.hit("internal_event_consumed");
        }
        if done_raised > 0 {
            probes.hit("done_state_raised");
        }
        if v.sc.notes.contains_key("cancel") {
            probes.hit("cancelled_midway");
        }
        // eventless: an Enabled(n>0) directly after Config/Idle-less position (no IntRecv/ExtRecv between)
        {
            let mut prev_is_select_origin = false;
            for o in &real.obs {
                match o {
                    Obs::Enabled(n) => {
                        if *n > 0 && !prev_is_select_origin {
                            probes.hit("eventless_taken");
                        }
                        prev_is_select_origin = false;
                    }
                    Obs::IntRecv(_) | Obs::ExtRecv(_) => prev_is_select_origin = true,
                    _ => {}
                }
            }
        }
        let has_parallel = m.st.iter().any(|s| s.kind == gen::Kind::Parallel);
        for o in &real.obs {
            if let Obs::Config(c) = o {
                if c.iter().any(|n| m.by_id.get(n).map(|i| m.is_parallel(*i)).unwrap_or(false)) {
                    probes.hit("parallel_active");
                    break;
                }
            }
        }
        // history re-entry: a history state's parent entered while a value was recorded
        let (reentered, default_taken) = history_probe(doc, &expected);
        if reentered {
            probes.hit("history_reentered");
        }
        if default_taken {
            probes.hit("history_default_taken");
        }
        if real.ended && real.obs.iter().any(|o| matches!(o, Obs::Enter(n) if m.by_id.get(n).map(|i| m.is_final(*i) && m.st[*i].parent == Some(0)).unwrap_or(false))) {
            probes.hit("top_final_reached");
        }
        if doc.late {
            probes.hit("late_binding_doc");
        }
        let xml = &v.sc.docs[0].xml;
        if xml.contains("<if ") && marks > 0 {
            probes.hit("if_executed");
        }
        if xml.contains("<foreach ") && marks > 0 {
            probes.hit("foreach_executed");
        }
        if xml.contains("location=\"_") {
            probes.hit("readonly_write_attempted");
        }
        if xml.contains("In(") && marks + microsteps > 0 {
            probes.hit("in_true_seen");
        }
        // guard false / conflict probes from the prediction
        {
            let mut sel = 0;
            for o in &expected {
                if let Obs::Enabled(n) = o {
                    if *n > 1 {
                        probes.hit("preemption_or_conflict");
                        sel += 1;
                    }
                }
            }
            if xml.contains(" cond=") && microsteps > 0 {
                probes.hit("guard_false");
            }
            let _ = sel;
        }
        // external queued during a macrostep
        if let Some(chan) = chan_of_session(v, sid) {
            let sends = sends_on(v.log, chan);
            let mut in_macro = false;
            let mut hit = false;
            for r in v.log.iter() {
                if r.session == sid {
                    match &r.kind {
                        rfsm_verif_seams::rec::RecKind::ExtRecv { .. } => in_macro = true,
                        rfsm_verif_seams::rec::RecKind::Method { name: "externalQueue.dequeue", enter: true } => in_macro = false,
                        _ => {}
                    }
                } else if in_macro && sends.iter().any(|s| s.0 == r.seq) {
                    hit = true;
                    break;
                }
            }
            if hit {
                probes.hit("external_queued_during_macrostep");
            }
        }

        match self.v {
            Variant::C01 => {
                // every real configuration snapshot must be legal, and enter/exit must be consistent
                let mut active: BTreeSet<String> = BTreeSet::new();
                let mut ended = false;
                let mut tainted_by_history = false;
                for (oi, o) in real.obs.iter().enumerate() {
                    match o {
                        Obs::Enter(n) => {
                            verdict.evaluations += 1;
                            if !active.insert(n.clone()) {
                                // class of the double entry: the W3C entry-set computation adds the ancestors between a
                                // history state's parent and the restored states even when the parent stays active
                                let via_history = tainted_by_history || pred.micro_info.iter().rev().find(|(i, _)| *i <= oi).map(|x| x.1).unwrap_or(false);
                                tainted_by_history = via_history;
                                let sig = if via_history { "double-enter:history-target-while-its-parent-stays-active" } else { "double-enter:other" };
                                verdict.violations.push(viol("C01", "C01.double-enter", format!("state {} entered while already active", n), sig.into()));
                            }
                        }
                        Obs::Exit(n) => {
                            verdict.evaluations += 1;
                            if !active.remove(n) {
                                let sig = if tainted_by_history { "illegal-after:history-target-while-its-parent-stays-active" } else { "exit-inactive" };
                                verdict.violations.push(viol("C01", if tainted_by_history { "C01.illegal-configuration" } else { "C01.exit-inactive" }, format!("state {} exited while inactive", n), sig.into()));
                            }
                        }
                        Obs::Config(c) => {
                            verdict.evaluations += 1;
                            probes.hit("snapshots_checked");
                            if !ended {
                                if let Err(e) = legality(doc, c) {
                                    // same root cause as the double entry above when the microstep targeted a history
                                    // pseudo-state whose parent stays active: completing the "ancestors" default-enters a
                                    // parallel region in which another transition of the same microstep enters a state
                                    // (an illegal configuration stays illegal: later snapshots of the same run are consequences)
                                    let via_history = tainted_by_history || pred.micro_info.iter().rev().find(|(i, _)| *i <= oi).map(|x| x.1).unwrap_or(false);
                                    tainted_by_history = via_history;
                                    let sig = if via_history {
                                        "illegal-after:history-target-while-its-parent-stays-active".to_string()
                                    } else {
                                        format!("illegal:{}", e.split(' ').take(2).collect::<Vec<_>>().join(" "))
                                    };
                                    verdict.violations.push(viol("C01", "C01.illegal-configuration", format!("configuration {:?} is not legal: {}", c, e), sig));
                                }
                                if *c != active && !tainted_by_history {
                                    verdict.violations.push(viol("C01", "C01.shadow-mismatch", format!("configuration {:?} differs from the states entered and not exited {:?}", c, active), "shadow".into()));
                                }
                            }
                        }
                        Obs::End => ended = true,
                        _ => {}
                    }
                }
                // final configuration reported to the host = configuration of the last microstep
                if let Some(Some(fc)) = v.out.final_configs.first() {
                    let fcs: BTreeSet<String> = fc.iter().filter(|n| !n.starts_with("__id")).cloned().collect();
                    let last = real.obs.iter().rev().find_map(|o| if let Obs::Config(c) = o { Some(c.clone()) } else { None });
                    if let Some(l) = last {
                        verdict.evaluations += 1;
                        if l != fcs {
                            verdict.violations.push(viol("C01", "C01.final-configuration", format!("final configuration {:?} reported to the host differs from the last configuration {:?}", fcs, l), "final-config".into()));
                        }
                    }
                }
                verdict.nontrivial = microsteps >= 3 && (has_parallel || uses_history);
            }
            Variant::C02 => {
                // determinism: same document + same external event order => identical trace
                let inputs: String = real.inputs.iter().map(|e| e.name.clone()).collect::<Vec<_>>().join(",");
                let key = (hash_str(&v.sc.docs[0].xml), hash_str(&inputs));
                let mut dig = 0u64;
                for o in &real.obs {
                    if !matches!(o, Obs::Config(_)) {
                        dig = mix2(dig, hash_str(&format!("{:?}", o)));
                    }
                }
                // full enabled transition ids as well
                for r in v.log.iter().filter(|r| r.session == sid) {
                    if let rfsm_verif_seams::rec::RecKind::Enabled { tids } = &r.kind {
                        dig = mix2(dig, hash_str(&format!("{:?}", tids)));
                    }
                }
                verdict.evaluations += 1;
                let clash = SEEN.with(|s| {
                    let mut s = s.borrow_mut();
                    if s.len() > 4096 {
                        s.clear();
                    }
                    match s.get(&key) {
                        Some(d) => *d != dig,
                        None => {
                            s.insert(key, dig);
                            false
                        }
                    }
                });
                if clash {
                    verdict.violations.push(viol("C02", "C02.nondeterministic-trace", format!("same document and same external event order [{}] produced a different trace under another schedule / hash seed", inputs), "nondeterministic".into()));
                }
                verdict.nontrivial = microsteps >= 3;
            }
            Variant::C03 => {
                verdict.nontrivial = int_consumed > 0;
            }
            Variant::C06 => {
                verdict.nontrivial = reentered;
            }
            Variant::C07 => {
                // termination checker: nothing is received after the end; final configuration legal
                let mut after_end = false;
                for o in &real.obs {
                    match o {
                        Obs::End => after_end = true,
                        Obs::ExtRecv(n) | Obs::IntRecv(n) if after_end => {
                            verdict.violations.push(viol("C07", "C07.event-after-end", format!("event {} processed after the session ended", n), "event-after-end".into()));
                        }
                        _ => {}
                    }
                }
                verdict.nontrivial = done_raised > 0 || real.ended;
            }
            Variant::C08 => {
                // places where the prediction only matches because the reference imitates an open finding
                let mut kinds: BTreeSet<&'static str> = BTreeSet::new();
                for h in &pred.quirk_hits {
                    kinds.insert(h);
                }
                for k in kinds {
                    verdict.violations.push(viol("C08", "C08.error-event", format!("error semantics differ from the Recommendation at an error site of kind '{}'", k), k.to_string()));
                }
                verdict.nontrivial = marks >= 5;
            }
            Variant::C09 => {
                verdict.nontrivial = marks >= 2 || microsteps >= 2;
            }
        }
        if let Some(f) = foreign {
            if verdict.violations.is_empty() {
                verdict.discarded = Some(format!("diverges in a family owned by another property: {}", f));
            }
        }
        verdict
    }
}

fn sig_of(e: &Option<Obs>, g: &Option<Obs>) -> String {
    fn k(o: &Option<Obs>) -> &'static str {
        match o {
            None => "none",
            Some(Obs::Enter(_)) => "enter",
            Some(Obs::Exit(_)) => "exit",
            Some(Obs::Mark { .. }) => "mark",
            Some(Obs::IntRecv(n)) => {
                if n.starts_with("error.") {
                    "int-error"
                } else if n.starts_with("done.") {
                    "int-done"
                } else {
                    "int"
                }
            }
            Some(Obs::ExtRecv(_)) => "ext",
            Some(Obs::IntSend(_)) => "intsend",
            Some(Obs::Enabled(_)) => "enabled",
            Some(Obs::Idle) => "idle",
            Some(Obs::Sent { .. }) => "sent",
            Some(Obs::Cancelled(_)) => "cancelled",
            Some(Obs::Config(_)) => "config",
            Some(Obs::End) => "end",
        }
    }
    format!("expected-{}/got-{}", k(e), k(g))
}

/// from the prediction: was a history's parent re-entered through the history with a recorded value /
/// with the default transition? (approximation used only as a reach probe)
fn history_probe(doc: &Doc, expected: &[Obs]) -> (bool, bool) {
    let m = Model::new(doc);
    let mut exited_parents: BTreeSet<String> = BTreeSet::new();
    let mut reentered = false;
    let mut default_taken = false;
    let hist_parents: BTreeSet<String> = (0..m.st.len()).filter(|s| m.is_history(*s)).map(|s| m.st[m.st[s].parent.unwrap()].id.clone()).collect();
    for o in expected {
        match o {
            Obs::Exit(n) if hist_parents.contains(n) => {
                exited_parents.insert(n.clone());
            }
            Obs::Enter(n) if hist_parents.contains(n) && exited_parents.contains(n) => reentered = true,
            Obs::Mark { tag, .. } if tag.starts_with("hd") => default_taken = true,
            _ => {}
        }
    }
    (reentered, default_taken)
}


// ---------------------------------------------------------------------------------------------
// document shrinking

fn node_paths(n: &crate::gen::Node, cur: &mut Vec<usize>, out: &mut Vec<Vec<usize>>) {
    out.push(cur.clone());
    for (i, c) in n.children.iter().enumerate() {
        cur.push(i);
        node_paths(c, cur, out);
        cur.pop();
    }
}

fn node_at<'a>(n: &'a mut crate::gen::Node, path: &[usize]) -> &'a mut crate::gen::Node {
    let mut cur = n;
    for i in path {
        cur = &mut cur.children[*i];
    }
    cur
}

fn subtree_ids(n: &crate::gen::Node, out: &mut Vec<String>) {
    out.push(n.id.clone());
    for c in &n.children {
        subtree_ids(c, out);
    }
}

/// remove every reference to the given state ids (targets, initial attributes)
fn purge_refs(n: &mut crate::gen::Node, gone: &[String]) {
    use crate::gen::Initial;
    n.trans.retain(|t| !t.targets.iter().any(|x| gone.contains(x)));
    match &n.initial {
        Initial::Attr(t) if t.iter().any(|x| gone.contains(x)) => n.initial = Initial::Default,
        Initial::Elem { targets, .. } if targets.iter().any(|x| gone.contains(x)) => n.initial = Initial::Default,
        _ => {}
    }
    for c in n.children.iter_mut() {
        purge_refs(c, gone);
    }
}

pub fn shrink_doc_candidates(doc: &crate::gen::Doc) -> Vec<crate::gen::Doc> {
    use crate::gen::{Exec, Initial, Kind};
    let mut out = Vec::new();
    let mut paths = Vec::new();
    node_paths(&doc.root, &mut Vec::new(), &mut paths);
    for p in &paths {
        // sub-states (largest reduction first)
        if !p.is_empty() {
            let mut d = doc.clone();
            let (last, parent_path) = p.split_last().unwrap();
            let mut gone = Vec::new();
            {
                let parent = node_at(&mut d.root, parent_path);
                subtree_ids(&parent.children[*last], &mut gone);
                parent.children.remove(*last);
                // a parallel with one region left, or a compound state without children, becomes a plain state
                let real = parent.children.iter().filter(|c| !c.kind.is_history()).count();
                if parent.kind == Kind::Parallel && real < 2 {
                    parent.kind = Kind::State;
                }
                if real == 0 {
                    parent.children.clear();
                    parent.initial = Initial::Default;
                }
            }
            purge_refs(&mut d.root, &gone);
            out.push(d);
        }
        let (nt, ne, nx) = {
            let mut d = doc.clone();
            let n = node_at(&mut d.root, p);
            (n.trans.len(), n.onentry.len(), n.onexit.len())
        };
        for i in 0..nt {
            let mut d = doc.clone();
            let n = node_at(&mut d.root, p);
            if n.kind.is_history() {
                continue;
            }
            n.trans.remove(i);
            out.push(d);
        }
        for i in 0..ne {
            let mut d = doc.clone();
            node_at(&mut d.root, p).onentry.remove(i);
            out.push(d);
        }
        for i in 0..nx {
            let mut d = doc.clone();
            node_at(&mut d.root, p).onexit.remove(i);
            out.push(d);
        }
        // single content items (never the first mark of a body and never a budget decrement)
        let keep = |x: &Exec| matches!(x, Exec::Assign { loc, .. } if loc == "budget");
        for i in 0..nt {
            let len = doc_node(doc, p).trans[i].content.len();
            for k in 1..len {
                if keep(&doc_node(doc, p).trans[i].content[k]) {
                    continue;
                }
                let mut d = doc.clone();
                node_at(&mut d.root, p).trans[i].content.remove(k);
                out.push(d);
            }
        }
        for i in 0..ne {
            let len = doc_node(doc, p).onentry[i].len();
            for k in 1..len {
                let mut d = doc.clone();
                node_at(&mut d.root, p).onentry[i].remove(k);
                out.push(d);
            }
        }
        for i in 0..nx {
            let len = doc_node(doc, p).onexit[i].len();
            for k in 1..len {
                let mut d = doc.clone();
                node_at(&mut d.root, p).onexit[i].remove(k);
                out.push(d);
            }
        }
    }
    out
}

fn doc_node<'a>(doc: &'a crate::gen::Doc, path: &[usize]) -> &'a crate::gen::Node {
    let mut cur = &doc.root;
    for i in path {
        cur = &cur.children[*i];
    }
    cur
}


// ---------------------------------------------------------------------------------------------
// C09, second workload: In() in a session that invokes another one (each session has its own state table)

fn in_after_invoke_scenario(rng: &mut Rng) -> Scenario {
    let dms = ["rfsm-expression", "ecmascript"];
    let pdm = *rng.pick(&dms);
    let cdm = *rng.pick(&["rfsm-expression", "ecmascript", "null"]);
    // the child has states of its own, one of them named like a state of the parent
    let child_probe = if cdm == "null" { String::new() } else { "<transition event=\"probe\"><script>mark('cin', In('c1'), In('work'), In('idle'))</script></transition>".to_string() };
    let child = format!(
        "<scxml xmlns=\"http://www.w3.org/2005/07/scxml\" version=\"1.0\" datamodel=\"{}\" name=\"kid\" initial=\"c1\"><state id=\"c1\">{}<transition event=\"step\" target=\"idle\"/></state><state id=\"idle\">{}</state></scxml>",
        cdm, child_probe, child_probe
    );
    let probe = "<transition event=\"probe\"><script>mark('in', In('idle'), In('work'), In('c1'))</script></transition>";
    let parent = format!(
        "<scxml xmlns=\"http://www.w3.org/2005/07/scxml\" version=\"1.0\" datamodel=\"{}\" name=\"par\" initial=\"idle\">\n <state id=\"idle\">{}<transition event=\"go\" target=\"work\"/></state>\n <state id=\"work\"><invoke id=\"kid\" autoforward=\"true\"><content>{}</content></invoke>{}<transition event=\"back\" target=\"idle\"/></state>\n</scxml>\n",
        pdm, probe, child, probe
    );
    let mut script = vec![Step::Start { doc: 0 }, Step::Send { sess: 0, ev: EvSpec::simple("probe") }];
    for _ in 0..rng.range(1, 2) {
        script.push(Step::Send { sess: 0, ev: EvSpec::simple("go") });
        if rng.chance(1, 2) {
            script.push(Step::Quiesce);
        }
        script.push(Step::Send { sess: 0, ev: EvSpec::simple("probe") });
        if rng.chance(1, 2) {
            script.push(Step::Send { sess: 0, ev: EvSpec::simple("step") });
            script.push(Step::Send { sess: 0, ev: EvSpec::simple("probe") });
        }
        script.push(Step::Quiesce);
        script.push(Step::Send { sess: 0, ev: EvSpec::simple("back") });
        script.push(Step::Send { sess: 0, ev: EvSpec::simple("probe") });
        script.push(Step::Quiesce);
    }
    let mut notes = BTreeMap::new();
    notes.insert("parent_dm".to_string(), pdm.to_string());
    notes.insert("child_dm".to_string(), cdm.to_string());
    Scenario { kind: "S4-in-after-invoke".into(), docs: vec![DocSrc { name: "par".into(), xml: parent, via_rfsm: false, model: None }], files: vec![], script, producers: vec![], knobs: Knobs { snapshots: false, ..Default::default() }, notes }
}

fn check_in_after_invoke(v: &RunView, probes: &mut Probes) -> Verdict {
    use rfsm_verif_seams::rec::RecKind;
    let mut verdict = Verdict::default();
    if !outcome_gate(v, &mut verdict) {
        return verdict;
    }
    let parent = match v.out.root_sessions.first() {
        Some(s) if *s != 0 => *s,
        _ => {
            verdict.discarded = Some("harness: parent not started".into());
            return verdict;
        }
    };
    // per session: state id -> name, from the enter callbacks
    let mut names: BTreeMap<(u32, u32), String> = BTreeMap::new();
    for r in v.log {
        if let RecKind::Enter { state, name } = &r.kind {
            names.insert((r.session, *state), name.clone());
        }
    }
    let child_started = v.rec.session_task.keys().any(|s| *s != parent);
    let dm_tag = format!("{}-invokes-{}", v.sc.notes.get("parent_dm").cloned().unwrap_or_default(), v.sc.notes.get("child_dm").cloned().unwrap_or_default());
    for r in v.log {
        if let RecKind::Mark { args, config } = &r.kind {
            let tag = args.first().map(|s| s.trim_matches('\'').to_string()).unwrap_or_default();
            let asked: &[&str] = match tag.as_str() {
                "in" => &["idle", "work", "c1"],
                "cin" => &["c1", "work", "idle"],
                _ => continue,
            };
            let active: BTreeSet<String> = config.iter().filter_map(|id| names.get(&(r.session, *id)).cloned()).collect();
            verdict.evaluations += 1;
            if r.session == parent && child_started && active.contains("work") {
                probes.hit("in_evaluated_while_child_runs");
            }
            if active.iter().any(|_| true) {
                probes.hit("in_true_seen");
            }
            for (k, st) in asked.iter().enumerate() {
                let got = args.get(k + 1).map(|s| s.as_str()).unwrap_or("");
                let want = if active.contains(*st) { "true" } else { "false" };
                if got != want {
                    let who = if r.session == parent { "parent" } else { "child" };
                    verdict.violations.push(viol(
                        "C09",
                        "C09.in-predicate",
                        format!("In('{}') evaluated to {} in the {} session while its configuration was {:?}", st, got, who, active),
                        format!("in-wrong:{}:{}", who, dm_tag),
                    ));
                }
            }
        }
    }
    // keep the other required probes of C09 satisfied by construction of the main workload only
    verdict.nontrivial = child_started;
    let mut seen = BTreeSet::new();
    verdict.violations.retain(|x| seen.insert((x.rule.clone(), x.signature.clone())));
    verdict
}
