//! C14 — invoked child sessions follow the SCXML invoke life cycle.
//!
//! Workload S4: a parent whose state `work` invokes one or two children (inline content, literal id and
//! idlocation, namelist + params incl. a name the child does not declare, autoforward, <finalize>), a
//! state `flash` with an invoke that is entered and left within one macrostep, children that report to
//! #_parent (immediately and delayed), finish by themselves, on request, or never; the host drives the
//! parent through go / back / fin / hostev / flash at scripted or racing moments, with a jitter clock.
//! Oracle: life-cycle checker over the histories of parent and children.

use super::common::*;
use crate::engine::{Probes, Property, RunView, Tier, Verdict};
use crate::scenario::{DocSrc, EvSpec, Knobs, PStep, Scenario, Step};
use crate::util::Rng;
use rfsm_verif_seams::rec::RecKind;
use std::collections::{BTreeMap, BTreeSet};

pub struct C14Prop;
pub static C14: C14Prop = C14Prop;

const CANCEL: &str = "error.platform.cancel";

#[derive(Clone, Debug)]
struct ChildOpts {
    msgs: u32,
    delayed_ms: Option<u64>,
    /// 0 finish immediately, 1 finish on 'finish', 2 never
    finish: u8,
}

fn child_doc(tag: &str, c: &ChildOpts) -> String {
    let mut s = String::new();
    s.push_str(&format!("<scxml xmlns=\"http://www.w3.org/2005/07/scxml\" version=\"1.0\" datamodel=\"rfsm-expression\" name=\"{}\" initial=\"c0\">", tag));
    s.push_str("<datamodel><data id=\"a\" expr=\"1\"/><data id=\"b\" expr=\"2\"/></datamodel>");
    s.push_str(&format!("<state id=\"c0\"><onentry><script>mark('cstart', '{}', a, b, zz)</script>", tag));
    for k in 0..c.msgs {
        s.push_str(&format!("<send target=\"#_parent\" event=\"c.{}.{}\"/>", tag, k));
    }
    if let Some(ms) = c.delayed_ms {
        s.push_str(&format!("<send target=\"#_parent\" event=\"c.{}.late\" delay=\"{}ms\"/>", tag, ms));
    }
    s.push_str("</onentry>");
    match c.finish {
        0 => s.push_str("<transition target=\"cfinal\"/>"),
        1 => s.push_str("<transition event=\"finish\" target=\"cfinal\"/>"),
        _ => {}
    }
    s.push_str(&format!("<transition event=\"*\"><script>mark('cev', '{}', _event.name)</script></transition>", tag));
    s.push_str("</state><final id=\"cfinal\"/></scxml>");
    s
}

fn parent_doc(kid: &ChildOpts, second: Option<&ChildOpts>, autoforward: bool, outer_bad: bool) -> String {
    let mut s = String::new();
    s.push_str("<scxml xmlns=\"http://www.w3.org/2005/07/scxml\" version=\"1.0\" datamodel=\"rfsm-expression\" name=\"par\" initial=\"idle\">\n");
    s.push_str(" <datamodel><data id=\"a\" expr=\"11\"/><data id=\"b\" expr=\"22\"/><data id=\"iid\" expr=\"'none'\"/></datamodel>\n");
    s.push_str(" <state id=\"idle\">\n  <transition event=\"go\" target=\"work\"/>\n  <transition event=\"flash\" target=\"flash\"/>\n");
    s.push_str("  <transition event=\"c\"><script>mark('late-child-event', _event.name, _event.invokeid)</script></transition>\n");
    s.push_str("  <transition event=\"done.invoke\"><script>mark('late-done', _event.name, _event.invokeid)</script></transition>\n");
    s.push_str("  <transition event=\"ping\"><script>mark('pong')</script></transition>\n </state>\n");
    s.push_str(&format!(" <state id=\"flash\">\n  <invoke id=\"fl\"><content>{}</content></invoke>\n  <transition target=\"idle\"/>\n </state>\n", child_doc("fl", &ChildOpts { msgs: 1, delayed_ms: None, finish: 2 })));
    if outer_bad {
        // 'work' lies in a state that is entered together with it and whose own invoke cannot be started (its
        // namelist names a missing location): the error it raises must not keep the invokes of 'work' from starting
        s.push_str(" <state id=\"outer\">\n  <invoke id=\"bad\" namelist=\"nosuchlocation\"><content><scxml xmlns=\"http://www.w3.org/2005/07/scxml\" version=\"1.0\" datamodel=\"null\" initial=\"k\"><final id=\"k\"/></scxml></content></invoke>\n");
    }
    s.push_str(" <state id=\"work\">\n");
    s.push_str(&format!(
        "  <invoke id=\"kid\" autoforward=\"{}\" namelist=\"a\"><param name=\"b\" expr=\"b + 1\"/><param name=\"zz\" expr=\"99\"/><content>{}</content><finalize><script>mark('fin', 'kid', _event.name)</script></finalize></invoke>\n",
        autoforward,
        child_doc("kid", kid)
    ));
    if let Some(c2) = second {
        s.push_str(&format!("  <invoke idlocation=\"iid\"><content>{}</content><finalize><script>mark('fin', 'second', _event.name)</script></finalize></invoke>\n", child_doc("second", c2)));
    }
    s.push_str("  <transition event=\"c\"><script>mark('pc', _event.name, _event.invokeid)</script></transition>\n");
    s.push_str("  <transition event=\"done.invoke.kid\"><script>mark('done', _event.name, _event.invokeid)</script></transition>\n");
    s.push_str("  <transition event=\"done.invoke\"><script>mark('done2', _event.name, _event.invokeid)</script></transition>\n");
    s.push_str("  <transition event=\"fin\"><send target=\"#_kid\" event=\"finish\"/></transition>\n");
    s.push_str("  <transition event=\"back\" target=\"idle\"/>\n");
    s.push_str("  <transition event=\"hostev\"><script>mark('host', _event.name)</script></transition>\n");
    s.push_str("  <transition event=\"ping\"><script>mark('pong')</script></transition>\n </state>\n");
    if outer_bad {
        s.push_str(" </state>\n");
    }
    s.push_str("</scxml>\n");
    s
}

impl Property for C14Prop {
    fn id(&self) -> &'static str {
        "C14"
    }
    fn workloads(&self, tier: Tier) -> u64 {
        match tier {
            Tier::Quick => 30_000,
            Tier::Thorough => 250_000,
        }
    }
    fn schedules_per_workload(&self, tier: Tier) -> usize {
        match tier {
            Tier::Quick => 4,
            Tier::Thorough => 8,
        }
    }
    fn max_steps(&self) -> usize {
        150_000
    }
    fn nontrivial_rule(&self) -> &'static str {
        "non-trivial: at least one child was started and at least one of {child event processed by the parent, child finished by itself, child cancelled by leaving the state}; distinct = distinct (scenario hash, interleaving signature)"
    }
    fn required_probes(&self) -> Vec<&'static str> {
        vec!["child_started", "child_event_processed", "child_done", "child_cancelled_on_exit", "flash_state_visited", "reentered_invoking_state", "two_invokes_in_one_macrostep", "autoforward_active", "child_done_vs_cancel_race", "event_from_cancelled_child_filtered", "finalize_ran"]
    }
    fn assumptions(&self) -> Vec<String> {
        vec!["children are identified as the sessions that are not started by the host; their role (kid / second / fl) by the tag they mark at start".into()]
    }

    fn generate(&self, rng: &mut Rng, tier: Tier, _index: u64) -> Scenario {
        let mk = |rng: &mut Rng| ChildOpts { msgs: rng.below(3) as u32, delayed_ms: if rng.chance(1, 3) { Some(rng.range(1, 30)) } else { None }, finish: rng.below(3) as u8 };
        let kid = mk(rng);
        let second = if rng.chance(1, 3) { Some(mk(rng)) } else { None };
        let autoforward = rng.chance(1, 2);
        let outer_bad = rng.chance(1, 3);
        let xml = parent_doc(&kid, second.as_ref(), autoforward, outer_bad);
        let mut script = Vec::new();
        let jitter = rng.chance(1, 2);
        if jitter {
            script.push(Step::Jitter { on: true });
        }
        script.push(Step::Start { doc: 0 });
        let evs = ["go", "back", "fin", "hostev.1", "hostev.2", "flash", "go", "back", "fin"];
        let nsteps = rng.range(2, if tier == Tier::Quick { 7 } else { 10 }) as usize;
        let mut producers: Vec<Vec<PStep>> = Vec::new();
        let racing = rng.chance(1, 3);
        let mut seq: Vec<String> = vec!["go".into()];
        for _ in 0..nsteps {
            seq.push(rng.pick(&evs[..]).to_string());
        }
        if racing {
            // two host tasks: one drives, the other fires back/fin at an arbitrary moment
            let mut a = Vec::new();
            for e in &seq {
                a.push(PStep::Send { sess: 0, ev: EvSpec::simple(e) });
                if rng.chance(1, 3) {
                    a.push(PStep::Yield);
                }
            }
            let b = vec![PStep::Send { sess: 0, ev: EvSpec::simple(if rng.chance(1, 2) { "back" } else { "fin" }) }, PStep::Send { sess: 0, ev: EvSpec::simple("go") }];
            producers.push(a);
            producers.push(b);
            script.push(Step::Producers { ids: vec![0, 1] });
            script.push(Step::Quiesce);
        } else {
            for e in &seq {
                script.push(Step::Send { sess: 0, ev: EvSpec::simple(e) });
                match rng.below(4) {
                    0 => {}
                    1 | 2 => script.push(Step::Quiesce),
                    _ => script.push(Step::DrainTimers { max: 2 }),
                }
            }
        }
        if jitter {
            script.push(Step::Quiesce);
            script.push(Step::Jitter { on: false });
        }
        script.push(Step::DrainTimers { max: 8 });
        script.push(Step::Ping);
        script.push(Step::Quiesce);
        let mut notes = BTreeMap::new();
        notes.insert("autoforward".into(), autoforward.to_string());
        notes.insert("second".into(), second.is_some().to_string());
        notes.insert("kid.finish".into(), kid.finish.to_string());
        Scenario { kind: "S4-invoke".into(), docs: vec![DocSrc { name: "par".into(), xml, via_rfsm: rng.chance(1, 10), model: None }], files: vec![], script, producers, knobs: Knobs { snapshots: rng.chance(1, 2), ..Default::default() }, notes }
    }

    fn check(&self, v: &RunView, probes: &mut Probes) -> Verdict {
        let mut verdict = Verdict::default();
        if !outcome_gate(v, &mut verdict) {
            return verdict;
        }
        let psid = match v.out.root_sessions.first() {
            Some(s) if *s != 0 => *s,
            _ => {
                verdict.discarded = Some(format!("harness: parent not started: {:?}", v.out.start_errors));
                return verdict;
            }
        };
        let pchan = chan_of_session(v, psid);
        let autoforward = v.sc.notes.get("autoforward").map(|s| s == "true").unwrap_or(false);
        let has_second = v.sc.notes.get("second").map(|s| s == "true").unwrap_or(false);
        let mut vio = Vec::new();
        let plog = session_log(v.log, psid);

        // ---- children: non-root sessions, role by their 'cstart' mark
        #[derive(Debug, Default, Clone)]
        struct Child {
            sid: u32,
            role: String,
            start_seq: u64,
            cstart: Option<Vec<String>>,
            got_cancel: Option<u64>,
            reached_final: Option<u64>,
            end_seq: Option<u64>,
            chan: Option<usize>,
            cev: Vec<String>,
            /// creation of the child's queue by the invoking parent (the child's thread may start much later)
            birth_seq: u64,
            /// the parent put the cancel event into the child's queue
            cancel_sent: Option<u64>,
        }
        let mut children: Vec<Child> = Vec::new();
        for r in v.log {
            if let RecKind::SessionStart { session, chan } = &r.kind {
                if *session != psid {
                    children.push(Child { sid: *session, start_seq: r.seq, chan: Some(*chan), ..Default::default() });
                }
            }
        }
        for c in children.iter_mut() {
            c.birth_seq = v.log.iter().find(|r| matches!(&r.kind, RecKind::ChanCreate { chan } if Some(*chan) == c.chan)).map(|r| r.seq).unwrap_or(c.start_seq);
            c.cancel_sent = v.log.iter().find(|r| r.session == psid && matches!(&r.kind, RecKind::Send { chan, ev: Some(ev), ok: true, .. } if Some(*chan) == c.chan && ev.name == CANCEL)).map(|r| r.seq);
            for r in v.log.iter().filter(|r| r.session == c.sid) {
                match &r.kind {
                    RecKind::Mark { args, .. } => {
                        if args.first().map(|s| s.as_str()) == Some("'cstart'") {
                            c.role = args.get(1).cloned().unwrap_or_default().trim_matches('\'').to_string();
                            c.cstart = Some(args.clone());
                        } else if args.first().map(|s| s.as_str()) == Some("'cev'") {
                            c.cev.push(args.get(2).cloned().unwrap_or_default().trim_matches('\'').to_string());
                        }
                    }
                    RecKind::ExtRecv { ev } if ev.name == CANCEL => c.got_cancel = Some(r.seq),
                    RecKind::Enter { name, .. } if name == "cfinal" => c.reached_final = Some(r.seq),
                    RecKind::SessionEnd { .. } => c.end_seq = Some(r.seq),
                    _ => {}
                }
            }
        }
        if !children.is_empty() {
            probes.hit("child_started");
        }

        // ---- parent macrosteps: entries into work / flash that survive the macrostep
        let mut expected_kid_starts = 0usize;
        let mut expected_second_starts = 0usize;
        {
            let mut entered_work_in_macro = false;
            let mut in_work = false;
            let mut work_entries = 0;
            for r in &plog {
                match &r.kind {
                    RecKind::Enter { name, .. } if name == "work" => {
                        entered_work_in_macro = true;
                        in_work = true;
                        work_entries += 1;
                    }
                    RecKind::Exit { name, .. } if name == "work" => {
                        in_work = false;
                        entered_work_in_macro = false;
                    }
                    RecKind::Enter { name, .. } if name == "flash" => probes.hit("flash_state_visited"),
                    RecKind::Method { name: "externalQueue.dequeue", enter: true } | RecKind::SessionEnd { .. } => {
                        // end of macrostep (for SessionEnd: the session ended inside the macrostep, invokes are not run)
                        if entered_work_in_macro && in_work && matches!(r.kind, RecKind::Method { .. }) {
                            expected_kid_starts += 1;
                            if has_second {
                                expected_second_starts += 1;
                                probes.hit("two_invokes_in_one_macrostep");
                            }
                        }
                        entered_work_in_macro = false;
                    }
                    _ => {}
                }
            }
            if work_entries > 1 {
                probes.hit("reentered_invoking_state");
            }
        }
        // the parent may have been cancelled by the settle phase right at an idle point where invokes were due:
        // the idle record is written before the invokes run, so allow the last expected start to be missing if
        // the parent ended without another macrostep. Detect: count idle points after which the session went on.
        let kid_starts = children.iter().filter(|c| c.role == "kid").count();
        let second_starts = children.iter().filter(|c| c.role == "second").count();
        let fl_starts = children.iter().filter(|c| c.role == "fl").count();
        verdict.evaluations += 3;
        if fl_starts > 0 {
            vio.push(viol("C14", "C14.start-count", format!("the invoke of state 'flash' (entered and exited within one macrostep) was started {} times", fl_starts), "flash-started".into()));
        }
        if kid_starts != expected_kid_starts {
            vio.push(viol("C14", "C14.start-count", format!("invoke 'kid' started {} times, state 'work' was entered and still active at the end of {} macrosteps", kid_starts, expected_kid_starts), format!("kid-starts-{}", if kid_starts < expected_kid_starts { "fewer" } else { "more" })));
        }
        if second_starts != expected_second_starts {
            vio.push(viol("C14", "C14.start-count", format!("second invoke started {} times, expected {}", second_starts, expected_second_starts), format!("second-starts-{}", if second_starts < expected_second_starts { "fewer" } else { "more" })));
        }

        // ---- param scope
        for c in children.iter().filter(|c| c.role == "kid") {
            if let Some(a) = &c.cstart {
                verdict.evaluations += 1;
                let (va, vb, vzz) = (a.get(2).cloned().unwrap_or_default(), a.get(3).cloned().unwrap_or_default(), a.get(4).cloned().unwrap_or_default());
                if va != "11" || vb != "23" {
                    vio.push(viol("C14", "C14.param-scope", format!("child started with a={} b={}, expected a=11 (namelist) b=23 (param b + 1)", va, vb), "param-values".into()));
                }
                if !vzz.starts_with("Error") && vzz != "<error>" {
                    vio.push(viol("C14", "C14.param-scope", format!("param 'zz' is not declared by the child but is defined there: {}", vzz), "undeclared-param-defined".into()));
                }
            }
        }

        // ---- walk the parent: macrosteps with the event, marks, cancelInvoke calls
        #[derive(Default, Debug)]
        struct Macro {
            ev: String,
            invokeid: Option<String>,
            origin: Option<String>,
            seq: u64,
            marks: Vec<Vec<String>>,
            in_work_at_start: bool,
        }
        let mut macros: Vec<Macro> = Vec::new();
        let mut cur: Option<Macro> = None;
        let mut in_work = false;
        let mut cancel_invoke_seqs: Vec<u64> = Vec::new();
        for r in &plog {
            match &r.kind {
                RecKind::ExtRecv { ev } => {
                    if let Some(m) = cur.take() {
                        macros.push(m);
                    }
                    cur = Some(Macro { ev: ev.name.clone(), invokeid: ev.invokeid.clone(), origin: ev.origin.clone(), seq: r.seq, in_work_at_start: in_work, ..Default::default() });
                }
                RecKind::Mark { args, .. } => {
                    if let Some(m) = cur.as_mut() {
                        m.marks.push(args.clone());
                    }
                }
                RecKind::Enter { name, .. } if name == "work" => in_work = true,
                RecKind::Exit { name, .. } if name == "work" => in_work = false,
                RecKind::Method { name: "cancelInvoke", enter: true } => cancel_invoke_seqs.push(r.seq),
                _ => {}
            }
        }
        if let Some(m) = cur.take() {
            macros.push(m);
        }
        let tag_of = |a: &Vec<String>| a.first().map(|s| s.trim_matches('\'').to_string()).unwrap_or_default();
        for m in &macros {
            let tags: Vec<String> = m.marks.iter().map(tag_of).collect();
            // after-cancel: child events processed in 'idle'
            if tags.iter().any(|t| t == "late-child-event") {
                verdict.evaluations += 1;
                vio.push(viol("C14", "C14.after-cancel", format!("the parent processed child event '{}' after it had left the invoking state (child cancelled)", m.ev), "child-event-after-cancel".into()));
            }
            if tags.iter().any(|t| t == "late-done") {
                verdict.evaluations += 1;
                vio.push(viol("C14", "C14.after-cancel", format!("the parent processed '{}' after it had cancelled that child", m.ev), "done-invoke-after-cancel".into()));
            }
            // an event of a child instance that had already been cancelled when the parent took it
            if m.ev.starts_with("c.") || m.ev.starts_with("done.invoke") {
                if let Some(o) = &m.origin {
                    if let Some(c) = children.iter().find(|c| format!("#_scxml_{}", c.sid) == *o) {
                        verdict.evaluations += 1;
                        if c.cancel_sent.map(|cs| cs < m.seq).unwrap_or(false) && !tags.is_empty() {
                            vio.push(viol("C14", "C14.after-cancel", format!("the parent processed '{}' of child session {} although it had cancelled that session before", m.ev, c.sid), "event-of-cancelled-instance".into()));
                        }
                    }
                }
            }
            if let Some(pi) = tags.iter().position(|t| t == "pc") {
                probes.hit("child_event_processed");
                verdict.evaluations += 1;
                let role = m.ev.split('.').nth(1).unwrap_or("");
                let got_inv = m.marks[pi].get(2).cloned().unwrap_or_default();
                if role == "kid" && got_inv != "'kid'" {
                    vio.push(viol("C14", "C14.invokeid", format!("child event '{}' processed with _event.invokeid = {}", m.ev, got_inv), "invokeid-kid".into()));
                }
                if role == "second" && (got_inv == "null" || got_inv == "'kid'" || !got_inv.contains("work.")) {
                    vio.push(viol("C14", "C14.invokeid", format!("event '{}' of the second child processed with _event.invokeid = {}", m.ev, got_inv), "invokeid-second".into()));
                }
                // finalize of exactly that invoke, before the transition content
                let fins: Vec<(usize, String)> = m.marks.iter().enumerate().filter(|(_, a)| tag_of(a) == "fin").map(|(i, a)| (i, a.get(1).cloned().unwrap_or_default().trim_matches('\'').to_string())).collect();
                if fins.iter().any(|(_, w)| w == role) {
                    probes.hit("finalize_ran");
                }
                if !fins.iter().any(|(i, w)| w == role && *i < pi) {
                    vio.push(viol("C14", "C14.finalize-order", format!("<finalize> of invoke '{}' did not run before the transitions for its event '{}'", role, m.ev), "finalize-missing".into()));
                }
                if fins.iter().any(|(_, w)| w != role) {
                    vio.push(viol("C14", "C14.finalize-order", format!("<finalize> of another invoke ran for event '{}'", m.ev), "finalize-foreign".into()));
                }
            } else if tags.iter().any(|t| t == "fin") && !m.ev.starts_with("c.") && !m.ev.starts_with("done.invoke") {
                vio.push(viol("C14", "C14.finalize-order", format!("<finalize> ran for event '{}' which does not come from a child", m.ev), "finalize-nonchild".into()));
            }
            if tags.iter().any(|t| t == "done" || t == "done2") {
                probes.hit("child_done");
            }
        }

        // ---- cancel on exit / done.invoke
        let pexits: Vec<u64> = plog.iter().filter(|r| matches!(&r.kind, RecKind::Exit { name, .. } if name == "work")).map(|r| r.seq).collect();
        for c in children.iter().filter(|c| c.role == "kid" || c.role == "second") {
            verdict.evaluations += 1;
            // the exit of 'work' that ended this child's invocation: first exit after its start
            let exit = pexits.iter().find(|e| **e > c.birth_seq).copied();
            let done_sends: Vec<u64> = v
                .log
                .iter()
                .filter(|r| r.session == c.sid && matches!(&r.kind, RecKind::Send { chan, ev: Some(e), ok: true, .. } if Some(*chan) == pchan && e.name.starts_with("done.invoke")))
                .map(|r| r.seq)
                .collect();
            let other_sends: Vec<u64> = v
                .log
                .iter()
                .filter(|r| matches!(&r.kind, RecKind::Send { chan, ev: Some(e), ok: true, .. } if Some(*chan) == pchan && e.name.starts_with(&format!("c.{}.", c.role)) ))
                .filter(|r| r.session == c.sid || v.rec.task_names.get(&r.task).map(|n| n.starts_with("timer")).unwrap_or(false))
                .filter(|r| r.seq > c.birth_seq)
                .map(|r| r.seq)
                .collect();
            match c.reached_final {
                Some(_) => {
                    if c.got_cancel.is_none() || c.got_cancel > c.reached_final {
                        if done_sends.len() != 1 {
                            vio.push(viol("C14", "C14.done-once", format!("child '{}' reached its top-level final state, done.invoke was sent {} times", c.role, done_sends.len()), format!("done-count-{}", done_sends.len().min(2))));
                        } else {
                            // after every other event this child sent to the parent (events of this child instance:
                            // those sent between its start and its end)
                            let d = done_sends[0];
                            let own: Vec<&u64> = other_sends.iter().filter(|s| c.end_seq.map(|e| **s < e).unwrap_or(true)).collect();
                            if own.iter().any(|s| **s > d) {
                                vio.push(viol("C14", "C14.done-last", format!("child '{}' sent an event to its parent after done.invoke", c.role), "done-not-last".into()));
                            }
                        }
                    }
                }
                None => {
                    if !done_sends.is_empty() {
                        vio.push(viol("C14", "C14.done-once", format!("child '{}' never reached a final state but done.invoke was sent", c.role), "done-without-final".into()));
                    }
                }
            }
            if let Some(e) = exit {
                // the child was still running when the parent left the state?
                let running_at_exit = c.end_seq.map(|x| x > e).unwrap_or(true) && c.reached_final.map(|f| f > e).unwrap_or(true);
                if running_at_exit {
                    probes.hit("child_cancelled_on_exit");
                    // "is cancelled" = the cancel event was put into the child's queue (a child that reaches its
                    // final state without looking at its queue any more never dequeues it)
                    if c.cancel_sent.is_none() && c.got_cancel.is_none() {
                        vio.push(viol("C14", "C14.cancel-on-exit", format!("the parent left the invoking state but the cancel event was never sent to child '{}'", c.role), "no-cancel".into()));
                    }
                }
                if let Some(f) = c.reached_final {
                    // child finished around the time the parent left the state: the race the statement speaks about
                    if (f as i64 - e as i64).abs() < 60 {
                        probes.hit("child_done_vs_cancel_race");
                    }
                }
            }
        }
        // events of a cancelled child that were in flight and filtered (never handed to the interpreter)
        {
            let handed: BTreeSet<u64> = BTreeSet::new();
            let _ = handed;
            let mut last_recv: Option<(u64, String)> = None;
            for r in &plog {
                match &r.kind {
                    RecKind::Recv { ev_id, .. } => {
                        if let Some((_, name)) = &last_recv {
                            if name.starts_with("c.") {
                                probes.hit("event_from_cancelled_child_filtered");
                            }
                        }
                        let name = v.log.iter().find_map(|x| match &x.kind {
                            RecKind::Send { ev_id: e, ev: Some(d), .. } if e == ev_id => Some(d.name.clone()),
                            _ => None,
                        });
                        last_recv = name.map(|n| (*ev_id, n));
                    }
                    RecKind::ExtRecv { .. } => last_recv = None,
                    _ => {}
                }
            }
        }

        // ---- autoforward: external events received while the kid is active are put into the kid's queue
        if autoforward {
            for m in &macros {
                // every external event counts: those of the host, those of the other child and those the
                // autoforward child itself has sent to its parent (they come back to it)
                if !(m.ev.starts_with("hostev") || m.ev.starts_with("c.")) || !m.in_work_at_start {
                    continue;
                }
                // the kid instance active at that moment
                let active = children
                    .iter()
                    .filter(|c| c.chan.is_some() && c.birth_seq < m.seq && c.end_seq.map(|e| e > m.seq).unwrap_or(true) && c.cancel_sent.map(|g| g > m.seq).unwrap_or(true) && c.reached_final.map(|f| f > m.seq).unwrap_or(true))
                    .filter(|c| c.role == "kid" || (c.role.is_empty() && !has_second))
                    .last();
                if let Some(c) = active {
                    // registered in the parent's child table at that time? (the invoke returns before the child thread starts)
                    probes.hit("autoforward_active");
                    verdict.evaluations += 1;
                    let forwarded = v.log.iter().any(|r| r.session == psid && r.seq > m.seq && matches!(&r.kind, RecKind::Send { chan, ev: Some(e), ok: true, .. } if Some(*chan) == c.chan && e.name == m.ev));
                    if !forwarded {
                        vio.push(viol("C14", "C14.autoforward", format!("external event '{}' was received while the autoforward child was active but was not forwarded to it", m.ev), "not-forwarded".into()));
                    }
                }
            }
        } else {
            for c in children.iter().filter(|c| c.role == "kid") {
                if c.cev.iter().any(|e| e.starts_with("hostev")) {
                    vio.push(viol("C14", "C14.autoforward", "an event was forwarded to a child without autoforward".into(), "forwarded-without-autoforward".into()));
                }
            }
        }

        verdict.nontrivial = !children.is_empty() && (macros.iter().any(|m| m.marks.iter().any(|a| tag_of(a) == "pc")) || children.iter().any(|c| c.reached_final.is_some() || c.got_cancel.is_some()));
        let mut seen = BTreeSet::new();
        vio.retain(|x| seen.insert((x.rule.clone(), x.signature.clone())));
        verdict.violations = vio;
        verdict
    }
}
