//! C13 — concurrent external events are each processed exactly once, in sender order, not overlapping.
//!
//! Workload S2: N producer tasks x M uniquely named events against one session whose processing of
//! some events raises internal events, sends itself delayed and immediate events; optional sibling
//! session sending to it; optional stop/cancel in the middle of a producer's script.
//! Oracle: transport history (Send/Recv per channel with message identity) + tracer history.

use super::common::*;
use crate::engine::{Probes, Property, RunView, Tier, Verdict};
use crate::scenario::{DocSrc, EvSpec, Knobs, PStep, Scenario, Step};
use crate::util::Rng;
use rfsm_verif_seams::rec::RecKind;
use std::collections::{BTreeMap, BTreeSet};

pub struct C13Prop;
pub static C13: C13Prop = C13Prop;

const CANCEL: &str = "error.platform.cancel";

/// per heavy event: (raised internal event names, delayed self-send name+ms, immediate self-send name)
#[derive(Clone, Debug, Default)]
struct Heavy {
    raised: Vec<String>,
    delayed: Option<(String, u64)>,
    selfsend: Option<String>,
}

fn main_doc(heavy: &BTreeMap<String, Heavy>, with_stop: bool) -> String {
    let mut s = String::new();
    s.push_str("<scxml xmlns=\"http://www.w3.org/2005/07/scxml\" version=\"1.0\" datamodel=\"rfsm-expression\" name=\"main\" initial=\"run\">\n");
    s.push_str(" <state id=\"run\">\n");
    s.push_str("  <transition event=\"ping\"><script>mark('pong')</script></transition>\n");
    s.push_str("  <transition event=\"i\"><script>mark('int', _event.name)</script></transition>\n");
    if with_stop {
        s.push_str("  <transition event=\"stop\" target=\"done\"><script>mark('ev', _event.name)</script></transition>\n");
    }
    for (name, h) in heavy {
        s.push_str(&format!("  <transition event=\"{}\"><script>mark('ev', _event.name)</script>", name));
        for r in &h.raised {
            s.push_str(&format!("<raise event=\"{}\"/>", r));
        }
        if let Some((d, ms)) = &h.delayed {
            s.push_str(&format!("<send event=\"{}\" delay=\"{}ms\"/>", d, ms));
        }
        if let Some(x) = &h.selfsend {
            s.push_str(&format!("<send event=\"{}\"/>", x));
        }
        s.push_str("</transition>\n");
    }
    s.push_str("  <transition event=\"*\"><script>mark('ev', _event.name)</script></transition>\n");
    s.push_str(" </state>\n <final id=\"done\"/>\n</scxml>\n");
    s
}

fn sibling_doc(n: usize) -> String {
    let mut s = String::new();
    s.push_str("<scxml xmlns=\"http://www.w3.org/2005/07/scxml\" version=\"1.0\" datamodel=\"rfsm-expression\" name=\"sib\" initial=\"a\">\n <state id=\"a\">\n  <onentry>");
    for k in 0..n {
        s.push_str(&format!("<send target=\"#_scxml_1\" event=\"s.{}\"/>", k));
    }
    s.push_str("</onentry>\n  <transition event=\"ping\"><script>mark('pong')</script></transition>\n </state>\n</scxml>\n");
    s
}

fn heavy_from_notes(sc: &Scenario) -> BTreeMap<String, Heavy> {
    let mut m = BTreeMap::new();
    for (k, v) in &sc.notes {
        if let Some(name) = k.strip_prefix("heavy:") {
            let mut h = Heavy::default();
            for part in v.split(';') {
                if let Some(r) = part.strip_prefix("r=") {
                    h.raised.push(r.to_string());
                } else if let Some(d) = part.strip_prefix("d=") {
                    let mut it = d.split('@');
                    let n = it.next().unwrap_or("").to_string();
                    let ms = it.next().and_then(|x| x.parse().ok()).unwrap_or(0);
                    h.delayed = Some((n, ms));
                } else if let Some(x) = part.strip_prefix("x=") {
                    h.selfsend = Some(x.to_string());
                }
            }
            m.insert(name.to_string(), h);
        }
    }
    m
}

impl Property for C13Prop {
    fn id(&self) -> &'static str {
        "C13"
    }

    fn workloads(&self, tier: Tier) -> u64 {
        match tier {
            Tier::Quick => 25_000,
            Tier::Thorough => 120_000,
        }
    }

    fn max_steps(&self) -> usize {
        60_000
    }

    fn nontrivial_rule(&self) -> &'static str {
        "a run is non-trivial when events of at least two different sending tasks interleave on the session's channel or an event was sent while the session was inside a macrostep; distinct = distinct (scenario hash, interleaving signature) pairs, the signature being a hash of the task chosen at every context switch"
    }

    fn required_probes(&self) -> Vec<&'static str> {
        vec!["send_while_busy", "senders_interleaved", "internal_event_while_external_queued", "timer_delivery", "sibling_delivery", "session_ended_with_queued", "stale_invoke_event_filtered", "equally_named_events"]
    }

    fn assumptions(&self) -> Vec<String> {
        vec![
            "std::sync / std::thread / timer are replaced by the shuttle-based seams (SeqCst only)".into(),
            "event names are unique per (sender, index), so every processing mark is attributable to one send".into(),
        ]
    }

    fn generate(&self, rng: &mut Rng, tier: Tier, _index: u64) -> Scenario {
        let maxp = if tier == Tier::Quick { 5 } else { 6 };
        let maxm = if tier == Tier::Quick { 8 } else { 12 };
        let np = rng.range(2, maxp) as usize;
        let mut producers: Vec<Vec<PStep>> = Vec::new();
        let mut names: Vec<String> = Vec::new();
        for p in 0..np {
            let m = rng.range(1, maxm) as usize;
            let mut script = Vec::new();
            for k in 0..m {
                let n = format!("p{}.{}", p, k);
                names.push(n.clone());
                let mut ev = EvSpec::simple(&n);
                if rng.chance(1, 4) {
                    ev.params.push(("k".into(), crate::scenario::PVal::Int(k as i64)));
                }
                script.push(PStep::Send { sess: 0, ev });
                if rng.chance(1, 6) {
                    script.push(PStep::Yield);
                }
            }
            producers.push(script);
        }
        // stale events: they carry the invoke id of an invocation the session does not have (what a cancelled
        // child's leftovers look like); the platform must ignore them - and nothing else
        if rng.chance(1, 3) {
            let m = rng.range(1, 6) as usize;
            let mut script = Vec::new();
            for k in 0..m {
                let mut ev = EvSpec::simple(&format!("ghost.{}", k));
                ev.invokeid = Some("ghost".into());
                script.push(PStep::Send { sess: 0, ev });
                if rng.chance(1, 4) {
                    script.push(PStep::Yield);
                }
            }
            if rng.chance(1, 2) {
                producers.push(script);
            } else {
                // interleaved into an ordinary producer's script: stale and ordinary events alternate in the queue
                let p = rng.below(producers.len() as u64) as usize;
                for st in script {
                    let at = rng.below(producers[p].len() as u64 + 1) as usize;
                    producers[p].insert(at, st);
                }
            }
        }
        // equally named events: a producer sends the same event name several times (identity cannot come from
        // the name; a platform must not "debounce" or coalesce them)
        let mut has_same = false;
        if rng.chance(1, 3) {
            has_same = true;
            let p = rng.below(producers.len() as u64) as usize;
            for _ in 0..rng.range(2, 5) {
                let at = rng.below(producers[p].len() as u64 + 1) as usize;
                producers[p].insert(at, PStep::Send { sess: 0, ev: EvSpec::simple("same") });
            }
            // two in a row somewhere
            let at = rng.below(producers[p].len() as u64 + 1) as usize;
            producers[p].insert(at, PStep::Send { sess: 0, ev: EvSpec::simple("same") });
            producers[p].insert(at, PStep::Send { sess: 0, ev: EvSpec::simple("same") });
        }
        let np = producers.len();
        // heavy events
        let mut notes = BTreeMap::new();
        let mut heavy: BTreeMap<String, Heavy> = BTreeMap::new();
        let nh = rng.below(5) as usize;
        for _ in 0..nh {
            let n = rng.pick(&names).clone();
            if heavy.contains_key(&n) {
                continue;
            }
            let mut h = Heavy::default();
            for r in 0..rng.below(4) {
                h.raised.push(format!("i.{}.{}", n, r));
            }
            if rng.chance(1, 2) {
                h.delayed = Some((format!("d.{}", n), rng.range(1, 60)));
            }
            if rng.chance(1, 3) {
                h.selfsend = Some(format!("x.{}", n));
            }
            let mut parts: Vec<String> = h.raised.iter().map(|r| format!("r={}", r)).collect();
            if let Some((d, ms)) = &h.delayed {
                parts.push(format!("d={}@{}", d, ms));
            }
            if let Some(x) = &h.selfsend {
                parts.push(format!("x={}", x));
            }
            notes.insert(format!("heavy:{}", n), parts.join(";"));
            heavy.insert(n, h);
        }
        // every 'same' event arms a delayed send without id, all with one event name: several of them are pending
        // at once, each is an event of its own that the timer thread must deliver
        if has_same && rng.chance(1, 2) {
            let mut h = Heavy::default();
            h.delayed = Some(("d.same".to_string(), rng.range(20, 60)));
            notes.insert("heavy:same".into(), format!("d=d.same@{}", h.delayed.as_ref().unwrap().1));
            heavy.insert("same".into(), h);
        }
        // stop / cancel in the middle of one producer's script
        let mut with_stop = false;
        if rng.chance(1, 4) {
            let p = rng.below(np as u64) as usize;
            let pos = rng.below(producers[p].len() as u64 + 1) as usize;
            if rng.chance(1, 2) {
                with_stop = true;
                producers[p].insert(pos, PStep::Send { sess: 0, ev: EvSpec::simple("stop") });
                notes.insert("stopper".into(), "stop".into());
            } else {
                producers[p].insert(pos, PStep::Cancel { sess: 0 });
                notes.insert("stopper".into(), "cancel".into());
            }
        }
        let mut docs = vec![DocSrc { name: "main".into(), xml: main_doc(&heavy, with_stop), via_rfsm: rng.chance(1, 8), model: None }];
        let mut script = vec![Step::Start { doc: 0 }];
        let nsib = if rng.chance(1, 3) { rng.range(1, 4) as usize } else { 0 };
        if rng.chance(1, 3) {
            // session is already idle when the producers start
            script.push(Step::Quiesce);
        }
        if nsib > 0 {
            // the sibling is a root session, or (half of the time) the invoked child of another root session:
            // an invoked session is a sender like any other
            let sib = sibling_doc(nsib);
            let xml = if rng.chance(1, 2) {
                notes.insert("sibling_invoked".into(), "1".into());
                format!("<scxml xmlns=\"http://www.w3.org/2005/07/scxml\" version=\"1.0\" datamodel=\"rfsm-expression\" name=\"sibhost\" initial=\"h\">\n <state id=\"h\"><invoke id=\"sibkid\"><content>{}</content></invoke>\n  <transition event=\"ping\"><script>mark('pong')</script></transition>\n </state>\n</scxml>\n", sib.replace('\n', ""))
            } else {
                sib
            };
            docs.push(DocSrc { name: "sib".into(), xml, via_rfsm: false, model: None });
            notes.insert("sibling".into(), nsib.to_string());
        }
        // jitter clock in half of the runs: delayed self-sends become due while the session, its sibling and its
        // own immediate sends are busy with the shared I/O processor
        let jitter = rng.chance(1, 2);
        if jitter {
            script.insert(0, Step::Jitter { on: true });
        }
        // the sibling is started by the driver while the producers are already running
        script.push(Step::Producers { ids: (0..np).collect() });
        if nsib > 0 {
            script.push(Step::Start { doc: 1 });
        }
        script.push(Step::Quiesce);
        if jitter {
            script.push(Step::Jitter { on: false });
        }
        script.push(Step::DrainTimers { max: 16 });
        script.push(Step::Ping);
        script.push(Step::Quiesce);
        Scenario { kind: "S2-producers".into(), docs, files: vec![], script, producers, knobs: Knobs { snapshots: rng.chance(3, 4), ..Default::default() }, notes }
    }

    fn check(&self, v: &RunView, probes: &mut Probes) -> Verdict {
        let mut verdict = Verdict::default();
        if !outcome_gate(v, &mut verdict) {
            return verdict;
        }
        let sid = match v.out.root_sessions.first() {
            Some(s) if *s != 0 => *s,
            _ => {
                verdict.discarded = Some("main session not started".into());
                return verdict;
            }
        };
        let chan = match chan_of_session(v, sid) {
            Some(c) => c,
            None => {
                verdict.discarded = Some("no channel for main session".into());
                return verdict;
            }
        };
        let heavy = heavy_from_notes(v.sc);
        let sends = sends_on(v.log, chan);
        let recvs = recvs_on(v.log, chan);
        let end_seq = session_end_seq(v.log, sid);
        let slog = session_log(v.log, sid);
        let mut vio = Vec::new();

        // --- transport level: duplicates
        for (id, seqs) in &recvs {
            if seqs.len() > 1 {
                vio.push(viol("C13", "C13.duplicated", format!("message #{} was received {} times", id, seqs.len()), "transport-dup".into()));
            }
            verdict.evaluations += 1;
        }

        // --- walk the session log: dequeues, accepted events, brackets
        #[derive(Default, Debug)]
        struct Bracket {
            ev_id: Option<u64>,
            name: String,
            marks_ev: Vec<String>,
            marks_int: Vec<String>,
            int_recv: Vec<String>,
            start_seq: u64,
            end_seq: u64,
        }
        let mut brackets: Vec<Bracket> = Vec::new();
        let mut dropped_by_filter: Vec<u64> = Vec::new();
        let mut received_ids: Vec<u64> = Vec::new();
        let mut last_recv: Option<u64> = None;
        let mut cur: Option<Bracket> = None;
        let mut running_cleared_at: Option<u64> = None;
        for r in &slog {
            match &r.kind {
                RecKind::Recv { chan: c, ev_id } if *c == chan => {
                    received_ids.push(*ev_id);
                    last_recv = Some(*ev_id);
                }
                RecKind::ExtRecv { ev } => {
                    if let Some(mut b) = cur.take() {
                        // a second external event inside a macrostep bracket
                        b.end_seq = r.seq;
                        vio.push(viol("C13", "C13.overlap", format!("external event '{}' received before the macrostep of '{}' reached its idle point", ev.name, b.name), "ext-in-bracket".into()));
                        brackets.push(b);
                    }
                    // identity: event names are unique per send in this workload; adjacency (the Recv right before)
                    // is only the fallback for ping / cancel
                    let by_name: Vec<u64> = sends.iter().filter(|s| ev_name(s.3) == ev.name).map(|s| s.2).collect();
                    let id = if by_name.len() == 1 { Some(by_name[0]) } else { last_recv };
                    last_recv = None;
                    cur = Some(Bracket { ev_id: id, name: ev.name.clone(), start_seq: r.seq, ..Default::default() });
                    if ev.name == CANCEL && running_cleared_at.is_none() {
                        running_cleared_at = Some(r.seq);
                    }
                }
                RecKind::Method { name: "externalQueue.dequeue", enter: true } => {
                    if let Some(mut b) = cur.take() {
                        b.end_seq = r.seq;
                        brackets.push(b);
                    }
                }
                RecKind::SessionEnd { .. } => {
                    if let Some(mut b) = cur.take() {
                        b.end_seq = r.seq;
                        brackets.push(b);
                    }
                }
                RecKind::Mark { args, .. } => {
                    if let Some(b) = cur.as_mut() {
                        if args.first().map(|s| s.as_str()) == Some("'ev'") {
                            b.marks_ev.push(args.get(1).cloned().unwrap_or_default().trim_matches('\'').to_string());
                        } else if args.first().map(|s| s.as_str()) == Some("'int'") {
                            b.marks_int.push(args.get(1).cloned().unwrap_or_default().trim_matches('\'').to_string());
                        }
                    } else if args.first().map(|s| s.as_str()) == Some("'ev'") || args.first().map(|s| s.as_str()) == Some("'int'") {
                        vio.push(viol("C13", "C13.overlap", format!("processing mark {:?} outside any external event's macrostep", args), "mark-outside".into()));
                    }
                }
                RecKind::IntRecv { ev } => {
                    if let Some(b) = cur.as_mut() {
                        b.int_recv.push(ev.name.clone());
                    }
                }
                RecKind::Snapshot { running: false, .. } => {
                    if running_cleared_at.is_none() {
                        running_cleared_at = Some(r.seq);
                    }
                }
                _ => {}
            }
        }
        if let Some(b) = cur.take() {
            brackets.push(b);
        }

        // --- per event: processed exactly once
        let mut processed: BTreeMap<String, usize> = BTreeMap::new();
        let mut bracket_of: BTreeMap<u64, usize> = BTreeMap::new();
        {
            let handed: BTreeSet<u64> = brackets.iter().filter_map(|b| b.ev_id).collect();
            for id in &received_ids {
                if !handed.contains(id) {
                    dropped_by_filter.push(*id);
                }
            }
        }
        for (i, b) in brackets.iter().enumerate() {
            if let Some(id) = b.ev_id {
                bracket_of.insert(id, i);
            }
            for m in &b.marks_ev {
                *processed.entry(m.clone()).or_insert(0) += 1;
            }
        }
        let stopped = end_seq.is_some();
        // stop events: after 'stop' is processed (or cancel received) nothing more has to be processed
        let stop_bracket_seq: Option<u64> = brackets.iter().find(|b| b.name == "stop" || b.name == CANCEL).map(|b| b.start_seq);
        let mut per_sender: BTreeMap<usize, Vec<(u64, String)>> = BTreeMap::new();
        for (_seq, task, ev_id, ev) in &sends {
            if ev_name(ev).starts_with("ghost.") || ev_name(ev) == "same" || ev_name(ev) == "d.same" {
                continue; // stale events are ignored by the platform; equally named events are judged by count
            }
            per_sender.entry(*task).or_default().push((*ev_id, ev_name(ev).to_string()));
        }
        let mut same_sent = 0usize;
        let mut same_received = 0usize;
        let mut dsame_sent = 0usize;
        let mut dsame_received = 0usize;
        for (_seq, _task, ev_id, ev) in &sends {
            let name = ev_name(ev).to_string();
            verdict.evaluations += 1;
            let received = recvs.contains_key(ev_id);
            if name == CANCEL || name == "ping" {
                continue;
            }
            if name == "same" {
                // several events of one sender with one and the same name: judged by count below
                same_sent += 1;
                if received {
                    same_received += 1;
                }
                continue;
            }
            if name == "d.same" {
                dsame_sent += 1;
                if received {
                    dsame_received += 1;
                }
                continue;
            }
            if name.starts_with("ghost.") {
                // stale event of an invocation the session does not have: must be ignored
                probes.hit("stale_invoke_event_filtered");
                if processed.get(&name).copied().unwrap_or(0) > 0 || bracket_of.contains_key(ev_id) {
                    verdict.other_rules.push("C14.after-cancel:stale-invoke-event-processed".into());
                }
                continue;
            }
            let n = processed.get(&name).copied().unwrap_or(0);
            if n > 1 {
                vio.push(viol("C13", "C13.duplicated", format!("event '{}' was processed {} times", name, n), "processed-twice".into()));
            }
            if !received {
                if !stopped {
                    vio.push(viol("C13", "C13.lost", format!("event '{}' (#{}) was sent to the running session and never dequeued", name, ev_id), "never-dequeued".into()));
                } else {
                    probes.hit("session_ended_with_queued");
                }
                continue;
            }
            if dropped_by_filter.contains(ev_id) && !stopped {
                vio.push(viol("C13", "C13.lost", format!("event '{}' (#{}) was dequeued and dropped without being processed", name, ev_id), "dropped-after-dequeue".into()));
                continue;
            }
            match bracket_of.get(ev_id) {
                None => {
                    vio.push(viol("C13", "C13.lost", format!("event '{}' (#{}) was dequeued but never handed to the interpreter", name, ev_id), "dequeued-not-received".into()));
                }
                Some(bi) => {
                    let b = &brackets[*bi];
                    if b.name != name {
                        vio.push(viol("C13", "C13.duplicated", format!("message #{} was sent as '{}' and received as '{}'", ev_id, name, b.name), "name-mismatch".into()));
                    }
                    let after_stop = stop_bracket_seq.map(|s| b.start_seq > s).unwrap_or(false);
                    if n == 0 && !after_stop {
                        vio.push(viol("C13", "C13.lost", format!("event '{}' was received but its transition content never ran", name), "received-not-processed".into()));
                    }
                    if after_stop && n > 0 {
                        verdict.other_rules.push("C07.event-after-end".into());
                    }
                }
            }
        }

        // --- equally named delayed events (sent by the timer thread): judged by count as well
        if dsame_sent > 0 {
            verdict.evaluations += 1;
            let done = processed.get("d.same").copied().unwrap_or(0);
            if done > dsame_received || (!stopped && done < dsame_sent) {
                let (rule, sig) = if done > dsame_received { ("C13.duplicated", "same-name-count:more:timer") } else { ("C13.lost", "same-name-count:less:timer") };
                vio.push(viol("C13", rule, format!("{} delayed events named 'd.same' were put on the queue ({} dequeued), {} were processed", dsame_sent, dsame_received, done), sig.into()));
            }
        }
        // --- equally named events: as many processed as were dequeued (all of them if the session kept running)
        if same_sent > 0 {
            probes.hit("equally_named_events");
            let done = processed.get("same").copied().unwrap_or(0);
            verdict.evaluations += 1;
            if done > same_received || (!stopped && done < same_sent) {
                let (rule, sig) = if done > same_received { ("C13.duplicated", "same-name-count:more") } else { ("C13.lost", "same-name-count:less") };
                vio.push(viol("C13", rule, format!("{} events named 'same' were sent ({} dequeued), {} were processed", same_sent, same_received, done), sig.into()));
            }
        }

        // --- sender order: per sending task, received events are a prefix of its sends, in order
        for (task, list) in &per_sender {
            let mut last_seq = 0u64;
            let mut gap: Option<String> = None;
            for (ev_id, name) in list {
                verdict.evaluations += 1;
                if name == CANCEL {
                    continue;
                }
                // position at which the interpreter took the event (processing order)
                match bracket_of.get(ev_id).map(|bi| brackets[*bi].start_seq) {
                    Some(ps) => {
                        if let Some(g) = &gap {
                            vio.push(viol("C13", "C13.sender-order", format!("task {}: '{}' was processed although the earlier event '{}' of the same sender was not", task, name, g), "prefix".into()));
                        }
                        if ps < last_seq {
                            vio.push(viol("C13", "C13.sender-order", format!("task {}: '{}' was processed before an earlier event of the same sender", task, name), "order".into()));
                        }
                        last_seq = ps;
                    }
                    None => {
                        if gap.is_none() {
                            gap = Some(name.clone());
                        }
                    }
                }
            }
        }

        // --- overlap: everything inside a bracket belongs to that bracket's event
        for b in &brackets {
            verdict.evaluations += 1;
            if b.name == CANCEL || b.name == "ping" {
                continue;
            }
            let after_stop = stop_bracket_seq.map(|s| b.start_seq > s).unwrap_or(false);
            if after_stop {
                continue;
            }
            let expect_int: Vec<String> = heavy.get(&b.name).map(|h| h.raised.clone()).unwrap_or_default();
            if b.marks_ev.iter().any(|m| *m != b.name) {
                vio.push(viol("C13", "C13.overlap", format!("inside the macrostep of '{}' the content of another event ran: {:?}", b.name, b.marks_ev), "foreign-mark".into()));
            }
            if b.int_recv != expect_int || b.marks_int != expect_int {
                vio.push(viol(
                    "C13",
                    "C13.overlap",
                    format!("macrostep of '{}': internal events {:?} / marks {:?}, expected {:?}", b.name, b.int_recv, b.marks_int, expect_int),
                    "internal-events".into(),
                ));
            }
        }

        // --- probes and non-triviality
        let mut interleaved = false;
        {
            let mut seen_done: BTreeSet<usize> = BTreeSet::new();
            let mut last_task: Option<usize> = None;
            for (_s, task, _id, _e) in &sends {
                if Some(*task) != last_task {
                    if seen_done.contains(task) {
                        interleaved = true;
                    }
                    if let Some(l) = last_task {
                        seen_done.insert(l);
                    }
                    last_task = Some(*task);
                }
            }
        }
        let mut busy_send = false;
        let mut int_while_ext_queued = false;
        {
            // is the session inside a bracket at the time of each send / internal receive?
            for (seq, _t, _id, _e) in &sends {
                if brackets.iter().any(|b| b.start_seq < *seq && *seq < b.end_seq) {
                    busy_send = true;
                    break;
                }
            }
            for r in &slog {
                if let RecKind::IntRecv { .. } = r.kind {
                    // queued externals at this moment: sends before r.seq not yet received
                    let queued = sends.iter().any(|(s, _, id, _)| *s < r.seq && recvs.get(id).and_then(|v| v.first()).map(|x| *x > r.seq).unwrap_or(true));
                    if queued {
                        int_while_ext_queued = true;
                        break;
                    }
                }
            }
        }
        if interleaved {
            probes.hit("senders_interleaved");
        }
        if busy_send {
            probes.hit("send_while_busy");
        }
        if int_while_ext_queued {
            probes.hit("internal_event_while_external_queued");
        }
        for (_s, task, id, e) in &sends {
            let tn = v.rec.task_names.get(task).map(|s| s.as_str()).unwrap_or("");
            if tn.starts_with("timer") && recvs.contains_key(id) {
                probes.hit("timer_delivery");
            }
            if ev_name(e).starts_with("s.") && recvs.contains_key(id) {
                probes.hit("sibling_delivery");
            }
        }
        if v.sched.context_switches > 2 * (v.sc.producers.len() + 2) {
            probes.hit("preemption_happened");
        }
        // --- the timer thread is a sender too: every delayed send of the session whose callback ran while the
        // session was alive must have put its event on the queue (a callback that gives up is a lost event)
        {
            let session_task = v.rec.session_task.get(&sid).copied();
            let mut own_items: BTreeSet<u64> = BTreeSet::new();
            let mut firing: BTreeMap<usize, (u64, u64, bool)> = BTreeMap::new(); // task -> (item, fire seq, sent)
            for r in v.log {
                match &r.kind {
                    RecKind::TimerSched { item, .. } if Some(r.task) == session_task => {
                        own_items.insert(*item);
                    }
                    RecKind::TimerFire { item } if own_items.contains(item) => {
                        firing.insert(r.task, (*item, r.seq, false));
                    }
                    RecKind::TimerCancel { item, fired: false } if own_items.contains(item) => {
                        // the documents of this workload contain no <cancel>: a pending delayed send that is dropped
                        // while the session runs is an event of the timer thread that will never be processed
                        verdict.evaluations += 1;
                        let ended_before = end_seq.map(|e| e < r.seq).unwrap_or(false);
                        if !ended_before {
                            vio.push(viol("C13", "C13.lost", format!("pending delayed send item {} was dropped (seq {}) while the session was running; no <cancel> exists in the document", item, r.seq), "delayed-send-dropped-while-pending".into()));
                        }
                    }
                    RecKind::Send { chan: c, ok: true, .. } if *c == chan => {
                        if let Some(f) = firing.get_mut(&r.task) {
                            f.2 = true;
                        }
                    }
                    RecKind::TimerFireDone { item } => {
                        if let Some((it, fseq, sent)) = firing.remove(&r.task) {
                            if it == *item {
                                verdict.evaluations += 1;
                                let ended_before = end_seq.map(|e| e < fseq).unwrap_or(false);
                                if !sent && !ended_before {
                                    vio.push(viol("C13", "C13.lost", format!("the timer callback of delayed send item {} ran (seq {}) but put no event on the session's queue", it, fseq), "timer-callback-without-delivery".into()));
                                }
                            }
                        }
                    }
                    _ => {}
                }
            }
        }
        verdict.nontrivial = interleaved || busy_send;
        verdict.violations = vio;
        verdict
    }
}
