//! C12 — no accepted document or event sequence can crash or wedge its session.
//!
//! Fault injection proper. Workload S6: a session whose transitions each inject one failing platform
//! operation or odd construct (unknown / malformed / dead send targets, unsupported send type, missing
//! parent, invokes that cannot be started, erroring expressions at every send argument, illegal delays,
//! self-aliasing assignments), optionally a second session that has already terminated (dead target),
//! host cancel / executor shutdown from the fault plan.
//! Oracle: no panic in any rFSM task; no deadlock / exhausted step budget; the error event the statement
//! assigns to the failure appears on the internal queue in the same macrostep; after the faults the
//! session still answers ping with pong and terminates on the cancel event.

use super::common::*;
use crate::engine::{Probes, Property, RunView, Tier, Verdict};
use crate::scenario::{DocSrc, EvSpec, Knobs, Scenario, Step};
use crate::sim::Outcome;
use crate::util::Rng;
use rfsm_verif_seams::rec::RecKind;
use std::collections::BTreeMap;

pub struct C12Prop;
pub static C12: C12Prop = C12Prop;

#[derive(Clone, Copy, Debug, PartialEq)]
enum Expect {
    /// exactly this error event must be raised in the macrostep
    Must(&'static str),
    /// error.execution or error.communication
    EitherError,
    /// at most an error event (or nothing): the statement only demands that the session carries on
    AtMost,
    /// nothing special: the construct is legal
    Nothing,
    /// this error event, carrying the send id of the fault's <send>, must have been raised by the end of the run
    /// (a delayed send fails when it is delivered, on the timer thread)
    Later(&'static str),
}

struct Fault {
    kind: &'static str,
    /// executable content of the transition
    content: String,
    expect: Expect,
    /// the rest of the block after the failing element must not run (mark 'after' absent)
    aborts_block: Option<bool>,
}

fn catalogue(k: usize, dead_session: Option<u32>) -> Vec<Fault> {
    let id = format!("s{}", k);
    let mut v = vec![
        Fault { kind: "unknown-session", content: format!("<send id=\"{}\" target=\"#_scxml_99\" event=\"x\"/>", id), expect: Expect::Must("error.communication"), aborts_block: None },
        Fault { kind: "unknown-session-expr", content: format!("<send id=\"{}\" targetexpr=\"'#_scxml_' + 77\" event=\"x\"/>", id), expect: Expect::Must("error.communication"), aborts_block: None },
        Fault { kind: "unknown-invokeid", content: format!("<send id=\"{}\" target=\"#_nosuchinvoke\" event=\"x\"/>", id), expect: Expect::Must("error.communication"), aborts_block: None },
        Fault { kind: "malformed-session-target", content: format!("<send id=\"{}\" target=\"#_scxml_abc\" event=\"x\"/>", id), expect: Expect::EitherError, aborts_block: None },
        Fault { kind: "malformed-target", content: format!("<send id=\"{}\" target=\"not-a-target\" event=\"x\"/>", id), expect: Expect::Must("error.execution"), aborts_block: None },
        Fault { kind: "unsupported-type", content: format!("<send id=\"{}\" type=\"http://example.org/nosuchprocessor\" event=\"x\"/>", id), expect: Expect::Must("error.execution"), aborts_block: None },
        Fault { kind: "unsupported-typeexpr", content: format!("<send id=\"{}\" typeexpr=\"'nosuch' + 'type'\" event=\"x\"/>", id), expect: Expect::Must("error.execution"), aborts_block: None },
        Fault { kind: "missing-parent", content: format!("<send id=\"{}\" target=\"#_parent\" event=\"x\"/>", id), expect: Expect::AtMost, aborts_block: None },
        Fault { kind: "illegal-delayexpr", content: format!("<send id=\"{}\" event=\"x\" delayexpr=\"'soon'\"/>", id), expect: Expect::Must("error.execution"), aborts_block: None },
        Fault { kind: "delay-to-internal", content: format!("<send id=\"{}\" event=\"x\" target=\"#_internal\" delayexpr=\"'1s'\"/>", id), expect: Expect::Must("error.execution"), aborts_block: None },
        Fault { kind: "bad-eventexpr", content: format!("<send id=\"{}\" eventexpr=\"nosuchvar + 1\"/>", id), expect: Expect::Must("error.execution"), aborts_block: None },
        Fault { kind: "bad-targetexpr", content: format!("<send id=\"{}\" targetexpr=\"nosuchvar\" event=\"x\"/>", id), expect: Expect::Must("error.execution"), aborts_block: None },
        Fault { kind: "bad-delayexpr", content: format!("<send id=\"{}\" event=\"x\" delayexpr=\"nosuchvar\"/>", id), expect: Expect::Must("error.execution"), aborts_block: None },
        Fault { kind: "bad-param-expr", content: format!("<send id=\"{}\" event=\"x.ok\"><param name=\"p\" expr=\"nosuchvar\"/></send>", id), expect: Expect::Must("error.execution"), aborts_block: Some(false) },
        Fault { kind: "bad-namelist", content: format!("<send id=\"{}\" event=\"x\" namelist=\"nosuchvar\"/>", id), expect: Expect::Must("error.execution"), aborts_block: None },
        Fault { kind: "assign-undeclared", content: "<assign location=\"nosuchvar\" expr=\"1\"/>".into(), expect: Expect::Must("error.execution"), aborts_block: Some(true) },
        Fault { kind: "assign-bad-expr", content: "<assign location=\"x\" expr=\"nosuchvar + 1\"/>".into(), expect: Expect::Must("error.execution"), aborts_block: Some(true) },
        Fault { kind: "alias-self-assign", content: "<assign location=\"x\" expr=\"x\"/>".into(), expect: Expect::Nothing, aborts_block: Some(false) },
        Fault { kind: "alias-array-self", content: "<assign location=\"arr\" expr=\"arr\"/>".into(), expect: Expect::Nothing, aborts_block: Some(false) },
        Fault { kind: "alias-compare-self", content: "<if cond=\"arr == arr\"><assign location=\"x\" expr=\"x + x\"/></if>".into(), expect: Expect::Nothing, aborts_block: Some(false) },
        Fault { kind: "alias-nested-down", content: "<assign location=\"nest\" expr=\"nest[0]\"/><assign location=\"nest\" expr=\"[[5]]\"/>".into(), expect: Expect::Nothing, aborts_block: Some(false) },
        Fault { kind: "alias-nested-up", content: "<assign location=\"nest[0]\" expr=\"nest\"/><assign location=\"nest\" expr=\"[[5]]\"/>".into(), expect: Expect::AtMost, aborts_block: None },
        Fault { kind: "alias-map-child", content: "<assign location=\"node\" expr=\"node.next\"/><assign location=\"node\" expr=\"{'next':{'next':null}}\"/>".into(), expect: Expect::Nothing, aborts_block: Some(false) },
        Fault { kind: "alias-self-index", content: "<assign location=\"x\" expr=\"arr[arr]\"/>".into(), expect: Expect::AtMost, aborts_block: None },
        Fault { kind: "alias-event-target", content: format!("<send id=\"{}\" eventexpr=\"tv\" targetexpr=\"tv\"/>", id), expect: Expect::Nothing, aborts_block: Some(false) },
        Fault { kind: "alias-event-param", content: format!("<send id=\"{}\" eventexpr=\"ev\"><param name=\"p\" expr=\"ev\"/></send>", id), expect: Expect::Nothing, aborts_block: Some(false) },
        Fault { kind: "huge-delay", content: format!("<send id=\"{}\" event=\"x\" delay=\"9999999999999999s\"/>", id), expect: Expect::AtMost, aborts_block: None },
        Fault { kind: "huge-delayexpr", content: format!("<send id=\"{}\" event=\"x\" delayexpr=\"'9999999999999999s'\"/>", id), expect: Expect::AtMost, aborts_block: None },
        Fault { kind: "large-delay", content: format!("<send id=\"{}\" event=\"x\" delay=\"99999999999d\"/>", id), expect: Expect::AtMost, aborts_block: None },
        Fault { kind: "session-target-empty-id", content: format!("<send id=\"{}\" target=\"#_scxml_\" event=\"x\"/>", id), expect: Expect::EitherError, aborts_block: None },
        Fault { kind: "invoke-target-empty-id", content: format!("<send id=\"{}\" target=\"#_\" event=\"x\"/>", id), expect: Expect::EitherError, aborts_block: None },
        Fault { kind: "session-target-overflow", content: format!("<send id=\"{}\" target=\"#_scxml_99999999999999\" event=\"x\"/>", id), expect: Expect::EitherError, aborts_block: None },
        Fault { kind: "session-target-negative", content: format!("<send id=\"{}\" target=\"#_scxml_-1\" event=\"x\"/>", id), expect: Expect::EitherError, aborts_block: None },
        Fault { kind: "negative-delayexpr", content: format!("<send id=\"{}\" event=\"x\" delayexpr=\"'-5s'\"/>", id), expect: Expect::Must("error.execution"), aborts_block: None },
        Fault { kind: "cancel-empty-id", content: "<cancel sendid=\"\"/>".into(), expect: Expect::AtMost, aborts_block: None },
        Fault { kind: "empty-event-name", content: format!("<send id=\"{}\" eventexpr=\"''\"/>", id), expect: Expect::AtMost, aborts_block: None },
        Fault { kind: "delayed-unknown-session", content: format!("<send id=\"{}\" target=\"#_scxml_99\" event=\"x\" delay=\"2ms\"/>", id), expect: Expect::Later("error.communication"), aborts_block: Some(false) },
        Fault { kind: "delayed-unknown-invokeid", content: format!("<send id=\"{}\" target=\"#_nosuchinvoke\" event=\"x\" delay=\"1ms\"/>", id), expect: Expect::Later("error.communication"), aborts_block: Some(false) },
        Fault { kind: "delayed-malformed-target", content: format!("<send id=\"{}\" target=\"not-a-target\" event=\"x\" delay=\"3ms\"/>", id), expect: Expect::Later("error.execution"), aborts_block: Some(false) },
        Fault { kind: "cancel-unknown", content: "<cancel sendid=\"never-sent\"/>".into(), expect: Expect::Nothing, aborts_block: Some(false) },
        Fault { kind: "cancel-bad-expr", content: "<cancel sendidexpr=\"nosuchvar\"/>".into(), expect: Expect::AtMost, aborts_block: None },
        Fault { kind: "foreach-noncollection", content: "<foreach array=\"x\" item=\"it\"><log expr=\"it\"/></foreach>".into(), expect: Expect::Must("error.execution"), aborts_block: Some(true) },
        Fault { kind: "modulus-by-zero", content: "<assign location=\"x\" expr=\"5 % 0\"/><assign location=\"x\" expr=\"1\"/>".into(), expect: Expect::AtMost, aborts_block: None },
        Fault { kind: "modulus-by-zero-var", content: "<assign location=\"x\" expr=\"x % (x - x)\"/><assign location=\"x\" expr=\"1\"/>".into(), expect: Expect::AtMost, aborts_block: None },
        Fault { kind: "modulus-by-zero-float", content: "<assign location=\"x\" expr=\"5.5 % 0\"/><assign location=\"x\" expr=\"1\"/>".into(), expect: Expect::AtMost, aborts_block: None },
        Fault { kind: "modulus-overflow", content: "<assign location=\"x\" expr=\"(0 - 9223372036854775807 - 1) % (0 - 1)\"/><assign location=\"x\" expr=\"1\"/>".into(), expect: Expect::AtMost, aborts_block: None },
        Fault { kind: "divide-by-zero", content: "<assign location=\"x\" expr=\"5 / 0\"/><assign location=\"x\" expr=\"1\"/>".into(), expect: Expect::AtMost, aborts_block: None },
        Fault { kind: "divide-zero-by-zero", content: "<assign location=\"x\" expr=\"0 / 0\"/><assign location=\"x\" expr=\"1\"/>".into(), expect: Expect::AtMost, aborts_block: None },
        Fault { kind: "divide-overflow", content: "<assign location=\"x\" expr=\"(0 - 9223372036854775807 - 1) / (0 - 1)\"/><assign location=\"x\" expr=\"1\"/>".into(), expect: Expect::AtMost, aborts_block: None },
        Fault { kind: "multiply-overflow", content: "<assign location=\"x\" expr=\"9223372036854775807 * 9223372036854775807\"/><assign location=\"x\" expr=\"1\"/>".into(), expect: Expect::AtMost, aborts_block: None },
        Fault { kind: "literal-overflow", content: "<assign location=\"x\" expr=\"99999999999999999999999\"/><assign location=\"x\" expr=\"1\"/>".into(), expect: Expect::AtMost, aborts_block: None },
        Fault { kind: "index-out-of-range", content: "<assign location=\"x\" expr=\"arr[99]\"/><assign location=\"x\" expr=\"1\"/>".into(), expect: Expect::AtMost, aborts_block: None },
        Fault { kind: "index-negative", content: "<assign location=\"x\" expr=\"arr[0 - 1]\"/><assign location=\"x\" expr=\"1\"/>".into(), expect: Expect::AtMost, aborts_block: None },
        Fault { kind: "index-fraction", content: "<assign location=\"x\" expr=\"arr[1.5]\"/><assign location=\"x\" expr=\"1\"/>".into(), expect: Expect::AtMost, aborts_block: None },
        Fault { kind: "index-huge", content: "<assign location=\"x\" expr=\"arr[9223372036854775807]\"/><assign location=\"x\" expr=\"1\"/>".into(), expect: Expect::AtMost, aborts_block: None },
        Fault { kind: "assign-index-out-of-range", content: "<assign location=\"arr[99]\" expr=\"7\"/><assign location=\"arr\" expr=\"[1, 2, 3]\"/>".into(), expect: Expect::AtMost, aborts_block: None },
        Fault { kind: "assign-index-negative", content: "<assign location=\"arr[0 - 1]\" expr=\"7\"/><assign location=\"arr\" expr=\"[1, 2, 3]\"/>".into(), expect: Expect::AtMost, aborts_block: None },
        Fault { kind: "string-escape-surrogate-pair", content: "<assign location=\"x\" expr=\"'\\ud83d\\ude00'\"/><assign location=\"x\" expr=\"1\"/>".into(), expect: Expect::AtMost, aborts_block: None },
        Fault { kind: "string-escape-lone-surrogate", content: "<assign location=\"x\" expr=\"'\\ud800'\"/><assign location=\"x\" expr=\"1\"/>".into(), expect: Expect::AtMost, aborts_block: None },
        Fault { kind: "string-escape-low-surrogate", content: "<assign location=\"x\" expr=\"'a\\udfffb'\"/><assign location=\"x\" expr=\"1\"/>".into(), expect: Expect::AtMost, aborts_block: None },
        Fault { kind: "string-escape-hex-letters", content: "<assign location=\"x\" expr=\"'\\u00e9'\"/><assign location=\"x\" expr=\"1\"/>".into(), expect: Expect::AtMost, aborts_block: None },
        Fault { kind: "string-escape-not-hex", content: "<assign location=\"x\" expr=\"'\\uZZZZ'\"/><assign location=\"x\" expr=\"1\"/>".into(), expect: Expect::AtMost, aborts_block: None },
        Fault { kind: "string-escape-short", content: "<assign location=\"x\" expr=\"'\\u12'\"/><assign location=\"x\" expr=\"1\"/>".into(), expect: Expect::AtMost, aborts_block: None },
        Fault { kind: "string-escape-at-end", content: "<assign location=\"x\" expr=\"'tail\\'\"/><assign location=\"x\" expr=\"1\"/>".into(), expect: Expect::AtMost, aborts_block: None },
        Fault { kind: "string-escape-unknown", content: "<assign location=\"x\" expr=\"'\\q\\x41\\0'\"/><assign location=\"x\" expr=\"1\"/>".into(), expect: Expect::AtMost, aborts_block: None },
        Fault { kind: "string-unterminated", content: "<assign location=\"x\" expr=\"'abc\"/><assign location=\"x\" expr=\"1\"/>".into(), expect: Expect::AtMost, aborts_block: None },
        Fault { kind: "string-non-ascii", content: "<assign location=\"x\" expr=\"'ä€😀'\"/><assign location=\"x\" expr=\"1\"/>".into(), expect: Expect::AtMost, aborts_block: None },
        Fault { kind: "abs-of-min-literal", content: "<assign location=\"x\" expr=\"abs(-9223372036854775808)\"/><assign location=\"x\" expr=\"1\"/>".into(), expect: Expect::AtMost, aborts_block: None },
        Fault { kind: "abs-of-min-computed", content: "<assign location=\"x\" expr=\"abs(0 - 9223372036854775807 - 1)\"/><assign location=\"x\" expr=\"1\"/>".into(), expect: Expect::AtMost, aborts_block: None },
        Fault { kind: "cond-min-literal", content: "<if cond=\"-9223372036854775808\"><assign location=\"x\" expr=\"1\"/></if>".into(), expect: Expect::AtMost, aborts_block: None },
        Fault { kind: "cond-min-computed", content: "<if cond=\"0 - 9223372036854775807 - 1\"><assign location=\"x\" expr=\"1\"/></if>".into(), expect: Expect::AtMost, aborts_block: None },
        Fault { kind: "negate-min", content: "<assign location=\"x\" expr=\"-(0 - 9223372036854775807 - 1)\"/><assign location=\"x\" expr=\"1\"/>".into(), expect: Expect::AtMost, aborts_block: None },
        Fault { kind: "cond-odd-values", content: "<if cond=\"arr\"><assign location=\"x\" expr=\"1\"/><elseif cond=\"node\"/><assign location=\"x\" expr=\"1\"/><elseif cond=\"''\"/><assign location=\"x\" expr=\"1\"/><elseif cond=\"0.0 / 0.0\"/><assign location=\"x\" expr=\"1\"/></if>".into(), expect: Expect::AtMost, aborts_block: None },
        Fault { kind: "raise-odd-name", content: "<raise event=\"error.platform.almostcancel\"/>".into(), expect: Expect::Nothing, aborts_block: Some(false) },
    ];
    if let Some(d) = dead_session {
        v.push(Fault { kind: "dead-session", content: format!("<send id=\"{}\" target=\"#_scxml_{}\" event=\"x\"/>", id, d), expect: Expect::AtMost, aborts_block: None });
    }
    v
}

/// invoke faults live in states (entered on an event, left on the next)
fn invoke_catalogue() -> Vec<(&'static str, String)> {
    vec![
        ("invoke-src-missing", "<invoke id=\"k\" src=\"file:/nonexistent/nosuch.scxml\"/>".into()),
        ("invoke-content-not-scxml", "<invoke id=\"k\"><content>this is not a statechart</content></invoke>".into()),
        ("invoke-content-empty-scxml", "<invoke id=\"k\"><content><scxml xmlns=\"http://www.w3.org/2005/07/scxml\"/></content></invoke>".into()),
        ("invoke-unsupported-type", "<invoke id=\"k\" type=\"http://example.org/nosuchinvoke\"><content><scxml xmlns=\"http://www.w3.org/2005/07/scxml\" datamodel=\"null\" initial=\"k1\"><final id=\"k1\"/></scxml></content></invoke>".into()),
        ("invoke-bad-srcexpr", "<invoke id=\"k\" srcexpr=\"nosuchvar\"/>".into()),
        ("invoke-bad-namelist", "<invoke id=\"k\" namelist=\"nosuchvar\"><content><scxml xmlns=\"http://www.w3.org/2005/07/scxml\" datamodel=\"null\" initial=\"k1\"><final id=\"k1\"/></scxml></content></invoke>".into()),
        ("invoke-srcexpr-and-param-one-variable", "<invoke id=\"k\" srcexpr=\"tv\"><param name=\"p\" expr=\"tv\"/><param name=\"q\" expr=\"tv + tv\"/></invoke>".into()),
        ("invoke-srcexpr-and-namelist-one-variable", "<invoke id=\"k\" srcexpr=\"tv\" namelist=\"tv\"/>".into()),
        ("invoke-typeexpr-and-param-one-variable", "<invoke id=\"k\" typeexpr=\"ev\"><param name=\"p\" expr=\"ev\"/><content><scxml xmlns=\"http://www.w3.org/2005/07/scxml\" datamodel=\"null\" initial=\"k1\"><final id=\"k1\"/></scxml></content></invoke>".into()),
        ("invoke-unknown-datamodel", "<invoke id=\"k\"><content><scxml xmlns=\"http://www.w3.org/2005/07/scxml\" datamodel=\"nosuchdatamodel\" initial=\"k1\"><final id=\"k1\"/></scxml></content></invoke>".into()),
    ]
}

fn doc(faults: &[Fault], inv: &[(&'static str, String)]) -> String {
    let mut s = String::new();
    let dm = if std::env::var("VERIF_EXPERIMENT_ECMA").is_ok() { "ecmascript" } else { "rfsm-expression" };
    s.push_str(&format!("<scxml xmlns=\"http://www.w3.org/2005/07/scxml\" version=\"1.0\" datamodel=\"{}\" name=\"faulty\" initial=\"run\">\n", dm));
    s.push_str(" <datamodel><data id=\"x\" expr=\"1\"/><data id=\"arr\" expr=\"[1, 2, 3]\"/><data id=\"nest\" expr=\"[[5]]\"/><data id=\"node\" expr=\"{'next':{'next':null}}\"/><data id=\"tv\" expr=\"'#_internal'\"/><data id=\"ev\" expr=\"'x.ok'\"/><data id=\"it\" expr=\"0\"/></datamodel>\n <state id=\"run\">\n");
    s.push_str("  <transition event=\"ping\"><script>mark('pong')</script></transition>\n");
    s.push_str("  <transition event=\"error\"><script>mark('err', _event.name, _event.sendid)</script></transition>\n");
    for (k, f) in faults.iter().enumerate() {
        s.push_str(&format!("  <transition event=\"f.{}\"><script>mark('f', {})</script>{}<script>mark('after', {})</script></transition>\n", k, k, f.content, k));
    }
    for (k, _) in inv.iter().enumerate() {
        s.push_str(&format!("  <transition event=\"i.{}\" target=\"inv{}\"/>\n", k, k));
    }
    s.push_str(" </state>\n");
    for (k, (_, x)) in inv.iter().enumerate() {
        s.push_str(&format!(" <state id=\"inv{}\">{}\n  <onentry><script>mark('inv', {})</script></onentry>\n  <transition event=\"ping\"><script>mark('pong')</script></transition>\n  <transition event=\"error\"><script>mark('err', _event.name, _event.sendid)</script></transition>\n  <transition event=\"back\" target=\"run\"/>\n  <transition event=\"done.invoke\" target=\"run\"/>\n </state>\n", k, x, k));
    }
    s.push_str("</scxml>\n");
    s
}

const DEAD_DOC: &str = "<scxml xmlns=\"http://www.w3.org/2005/07/scxml\" version=\"1.0\" datamodel=\"null\" name=\"dead\" initial=\"d\"><final id=\"d\"/></scxml>";

impl Property for C12Prop {
    fn id(&self) -> &'static str {
        "C12"
    }

    fn workloads(&self, tier: Tier) -> u64 {
        match tier {
            Tier::Quick => 40_000,
            Tier::Thorough => 250_000,
        }
    }

    fn schedules_per_workload(&self, tier: Tier) -> usize {
        match tier {
            Tier::Quick => 2,
            Tier::Thorough => 4,
        }
    }

    fn max_steps(&self) -> usize {
        100_000
    }

    fn nontrivial_rule(&self) -> &'static str {
        "non-trivial: at least two injected failures were exercised (their transition was taken) and the liveness probe (ping/pong) ran afterwards; distinct = distinct (scenario hash, interleaving signature)"
    }

    fn required_probes(&self) -> Vec<&'static str> {
        vec!["fault:unknown-session", "fault:malformed-target", "fault:unsupported-type", "fault:missing-parent", "fault:illegal-delayexpr", "fault:bad-eventexpr", "fault:alias-self-assign", "fault:dead-session", "fault:invoke-src-missing", "fault:invoke-content-not-scxml", "fault:host-cancel", "fault:shutdown", "pong_after_faults"]
    }

    fn assumptions(&self) -> Vec<String> {
        vec![
            "'accepted by the reader' = parse_from_xml returns Ok without panicking; documents the reader rejects are not part of the claim".into(),
            "a send to a session that has terminated may be accepted silently or answered with error.communication (sessions are never removed from the executor's table); a send to a never-issued id must produce error.communication".into(),
            "panics inside user-supplied Actions are outside the property".into(),
        ]
    }

    fn generate(&self, rng: &mut Rng, tier: Tier, _index: u64) -> Scenario {
        let with_dead = rng.chance(1, 3);
        // session ids: dead doc (if any) is started first and gets id 1
        let dead_id = if with_dead { Some(1u32) } else { None };
        let all = catalogue(0, dead_id);
        let nf = rng.range(2, if tier == Tier::Quick { 5 } else { 7 }) as usize;
        let mut chosen: Vec<Fault> = Vec::new();
        for k in 0..nf {
            let c = catalogue(k, dead_id);
            let idx = rng.below(all.len() as u64) as usize;
            chosen.push(c.into_iter().nth(idx).unwrap());
        }
        let inv_all = invoke_catalogue();
        let ni = rng.below(3) as usize;
        let mut inv: Vec<(&'static str, String)> = Vec::new();
        for _ in 0..ni {
            inv.push(inv_all[rng.below(inv_all.len() as u64) as usize].clone());
        }
        let mut docs = Vec::new();
        let mut script = Vec::new();
        let mut notes = BTreeMap::new();
        let main_idx;
        if with_dead {
            docs.push(DocSrc { name: "dead".into(), xml: DEAD_DOC.into(), via_rfsm: false, model: None });
            script.push(Step::Start { doc: 0 });
            script.push(Step::Quiesce);
            main_idx = 1usize;
        } else {
            main_idx = 0usize;
        }
        docs.push(DocSrc { name: "faulty".into(), xml: doc(&chosen, &inv), via_rfsm: rng.chance(1, 10), model: None });
        // jitter clock: delayed sends become due while the session is still busy with the block that issued them
        let jitter = rng.chance(1, 2);
        if jitter {
            script.push(Step::Jitter { on: true });
        }
        script.push(Step::Start { doc: main_idx });
        let sess = main_idx;
        // order of fault events
        let mut order: Vec<String> = (0..nf).map(|k| format!("f.{}", k)).collect();
        for k in 0..ni {
            let pos = rng.below(order.len() as u64 + 1) as usize;
            order.insert(pos, format!("i.{}", k));
        }
        let burst = rng.chance(1, 3);
        for e in &order {
            script.push(Step::Send { sess, ev: EvSpec::simple(e) });
            if e.starts_with("i.") {
                script.push(Step::Quiesce);
                if rng.chance(1, 2) {
                    script.push(Step::Send { sess, ev: EvSpec::simple("ping") });
                }
                script.push(Step::Send { sess, ev: EvSpec::simple("back") });
            }
            if !burst {
                script.push(Step::Quiesce);
            }
        }
        script.push(Step::Quiesce);
        if jitter {
            script.push(Step::Jitter { on: false });
        }
        script.push(Step::DrainTimers { max: 12 });
        let fault_plan = rng.below(8);
        if fault_plan == 0 {
            script.push(Step::Shutdown);
            notes.insert("shutdown".into(), "1".into());
        }
        script.push(Step::Ping);
        script.push(Step::Quiesce);
        if fault_plan == 1 {
            script.push(Step::Cancel { sess });
            script.push(Step::Quiesce);
            notes.insert("host-cancel".into(), "1".into());
        }
        for (k, f) in chosen.iter().enumerate() {
            notes.insert(format!("f.{}", k), format!("{}|{:?}|{:?}", f.kind, f.expect, f.aborts_block));
        }
        for (k, (kind, _)) in inv.iter().enumerate() {
            notes.insert(format!("i.{}", k), kind.to_string());
        }
        notes.insert("main".into(), main_idx.to_string());
        Scenario { kind: "S6-faults".into(), docs, files: vec![], script, producers: vec![], knobs: Knobs { snapshots: rng.chance(1, 2), ..Default::default() }, notes }
    }

    fn check(&self, v: &RunView, probes: &mut Probes) -> Verdict {
        let mut verdict = Verdict::default();
        verdict.evaluations = 1;
        for (k, val) in &v.sc.notes {
            if k.starts_with("f.") || k.starts_with("i.") {
                let kind = val.split('|').next().unwrap_or("");
                probes.hit(&format!("fault:{}", kind));
            }
        }
        if v.sc.notes.contains_key("shutdown") {
            probes.hit("fault:shutdown");
        }
        if v.sc.notes.contains_key("host-cancel") {
            probes.hit("fault:host-cancel");
        }
        let main_idx: usize = v.sc.notes.get("main").and_then(|s| s.parse().ok()).unwrap_or(0);
        // which fault was being processed when things went wrong (last 'f'/'inv' mark or last fault event received)
        let last_fault = |session: u32| -> String {
            let mut last = String::from("startup");
            for r in v.log.iter().filter(|r| session == 0 || r.session == session) {
                if let RecKind::ExtRecv { ev } = &r.kind {
                    if let Some(n) = v.sc.notes.get(&ev.name) {
                        last = n.split('|').next().unwrap_or("").to_string();
                    }
                }
            }
            last
        };
        match v.outcome {
            Outcome::Completed => {}
            Outcome::Panic { msg, location, session, task_name, holds, .. } => {
                let loc = location.rsplit("/src/").next().unwrap_or(location).to_string();
                let during = last_fault(*session);
                verdict.violations.push(viol(
                    "C12",
                    "C12.panic",
                    format!("rFSM task '{}' (session {}) panicked at {}: {} (holding {:?}) while handling fault '{}'", task_name, session, location, msg, holds, during),
                    {
                        let _ = loc;
                        let m: String = msg.chars().take(28).map(|c| if c.is_ascii_alphanumeric() { c } else { '_' }).collect();
                        // a panic in another session's thread (e.g. an invoked child that cannot start) is not
                        // synchronous with the fault events of the main session
                        let main_sid = v.out.root_sessions.get(main_idx).copied().unwrap_or(0);
                        if *session == main_sid && main_sid != 0 {
                            format!("panic:{}:{}", m, during)
                        } else {
                            format!("panic:{}:other-session-thread", m)
                        }
                    },
                ));
                return verdict;
            }
            Outcome::Deadlock { msg, tasks } => {
                let sig = deadlock_signature(tasks);
                let self_wait = tasks.iter().any(|t| t.wants.is_some() && t.blocked_by.is_none() || t.blocked_by == Some(t.task));
                let during = last_fault(0);
                if msg.contains("tried to acquire a Mutex it already holds") || self_wait {
                    verdict.violations.push(viol("C12", "C12.wedge", format!("session thread blocks on a lock it holds itself ({}) while handling fault '{}'", msg, during), format!("self-deadlock:{}", during)));
                } else if sig.is_empty() {
                    // nothing waits for an rFSM lock: a session did not terminate on cancel / never became idle
                    verdict.violations.push(viol("C12", "C12.not-cancellable", format!("the run cannot finish: a session neither terminates nor becomes idle ({}) after fault '{}'", msg, during), format!("stuck:{}", during)));
                } else {
                    verdict.other_rules.push(format!("C17.deadlock:{}", sig));
                    verdict.discarded = Some("deadlock (C17)".into());
                }
                return verdict;
            }
            Outcome::StepBound { .. } => {
                let during = last_fault(0);
                verdict.violations.push(viol("C12", "C12.wedge", format!("step budget exhausted (a task spins) after fault '{}'", during), format!("spin:{}", during)));
                return verdict;
            }
            Outcome::ReplayDiverged(d) => {
                verdict.discarded = Some(format!("replay diverged: {}", d));
                return verdict;
            }
            Outcome::Harness(h) => {
                verdict.discarded = Some(format!("harness: {}", h));
                return verdict;
            }
        }
        let sid = match v.out.root_sessions.get(main_idx) {
            Some(s) if *s != 0 => *s,
            _ => {
                verdict.discarded = Some(format!("harness: session not started: {:?}", v.out.start_errors));
                return verdict;
            }
        };
        // ---- per fault macrostep: marks and error events
        let slog = session_log(v.log, sid);
        #[derive(Default, Debug)]
        struct Macro {
            ev: String,
            marks: Vec<Vec<String>>,
            errors: Vec<(String, Option<String>)>,
        }
        let mut macros: Vec<Macro> = Vec::new();
        let mut cur: Option<Macro> = None;
        let mut pong_after: usize = 0;
        let mut pings_received = 0;
        let mut cancelled = false;
        for r in &slog {
            match &r.kind {
                RecKind::ExtRecv { ev } => {
                    if let Some(m) = cur.take() {
                        macros.push(m);
                    }
                    if ev.name == "ping" {
                        pings_received += 1;
                    }
                    if ev.name == "error.platform.cancel" {
                        cancelled = true;
                    }
                    cur = Some(Macro { ev: ev.name.clone(), ..Default::default() });
                }
                RecKind::Mark { args, .. } => {
                    if args.first().map(|s| s.as_str()) == Some("'pong'") {
                        pong_after += 1;
                    }
                    if let Some(m) = cur.as_mut() {
                        m.marks.push(args.clone());
                    }
                }
                RecKind::IntRecv { ev } => {
                    if let Some(m) = cur.as_mut() {
                        if ev.name == "error.execution" || ev.name == "error.communication" {
                            m.errors.push((ev.name.clone(), ev.sendid.clone()));
                        }
                    }
                }
                _ => {}
            }
        }
        if let Some(m) = cur.take() {
            macros.push(m);
        }
        // error events of delayed sends arrive whenever their timer fires, i.e. inside the macrostep of whatever
        // event is being processed then: they are attributed by their send id, not by the macrostep
        let delayed_ids: Vec<String> = v
            .sc
            .notes
            .iter()
            .filter(|(k, val)| k.starts_with("f.") && val.contains("|Later("))
            .map(|(k, _)| format!("s{}", k.trim_start_matches("f.")))
            .collect();
        let mut exercised = 0;
        for m in &macros {
            let note = match v.sc.notes.get(&m.ev) {
                Some(n) => n,
                None => continue,
            };
            if m.ev.starts_with("i.") {
                exercised += 1;
                continue; // invoke failures: at most an error event; liveness is checked below
            }
            let mut parts = note.split('|');
            let kind = parts.next().unwrap_or("");
            let expect = parts.next().unwrap_or("");
            let aborts = parts.next().unwrap_or("");
            let has_f = m.marks.iter().any(|a| a.first().map(|s| s.as_str()) == Some("'f'"));
            if !has_f {
                continue; // the session had ended / was shut down before
            }
            exercised += 1;
            verdict.evaluations += 1;
            let own_id = format!("s{}", m.ev.trim_start_matches("f."));
            let names: Vec<&str> = m
                .errors
                .iter()
                .filter(|e| match &e.1 {
                    Some(id) => !delayed_ids.contains(id) || *id == own_id,
                    None => true,
                })
                .map(|e| e.0.as_str())
                .collect();
            let has_after = m.marks.iter().any(|a| a.first().map(|s| s.as_str()) == Some("'after'"));
            if expect.starts_with("Must(") {
                let want = expect.trim_start_matches("Must(\"").trim_end_matches("\")");
                if !names.contains(&want) {
                    verdict.violations.push(viol("C12", "C12.error-event", format!("fault '{}': expected {} on the internal queue, got {:?}", kind, want, names), format!("missing-{}:{}", want, kind)));
                }
            } else if expect.starts_with("Later(") {
                let want = expect.trim_start_matches("Later(\"").trim_end_matches("\")");
                // the fault is the k-th one: its <send> has the id s<k>
                let k: String = m.ev.trim_start_matches("f.").to_string();
                let sendid = format!("s{}", k);
                let raised = macros.iter().any(|mm| mm.errors.iter().any(|e| e.0 == want && e.1.as_deref() == Some(sendid.as_str())));
                let ended = session_end_seq(v.log, sid).is_some() && !v.out.completed_script;
                if !raised && !ended && !v.sc.notes.contains_key("shutdown") && !v.sc.notes.contains_key("host-cancel") {
                    verdict.violations.push(viol("C12", "C12.error-event", format!("fault '{}': the delayed send {} failed at delivery but {} with its send id never reached the internal queue", kind, sendid, want), format!("missing-{}:{}", want, kind)));
                }
                if !names.is_empty() && names.iter().any(|n| *n != want) {
                    // an error at execution time is fine too (the platform may check the target early) - but not a different one later
                }
            } else if expect == "EitherError" {
                if names.is_empty() {
                    verdict.violations.push(viol("C12", "C12.error-event", format!("fault '{}': expected error.execution or error.communication, got none", kind), format!("missing-error:{}", kind)));
                }
            } else if expect == "Nothing" && !names.is_empty() {
                verdict.violations.push(viol("C12", "C12.error-event", format!("legal construct '{}' raised {:?}", kind, names), format!("spurious-error:{}", kind)));
            }
            if aborts == "Some(true)" && has_after {
                verdict.other_rules.push(format!("C08.abort-scope:{}", kind));
            }
            if aborts == "Some(false)" && !has_after {
                verdict.violations.push(viol("C12", "C12.error-event", format!("'{}' stopped the rest of its block although nothing failed", kind), format!("spurious-abort:{}", kind)));
            }
        }
        // ---- liveness: every ping received by the surviving session is answered
        let shutdown = v.sc.notes.contains_key("shutdown");
        let ended_early = session_end_seq(v.log, sid).is_some() && !cancelled && !v.out.completed_script;
        let _ = ended_early;
        if pings_received > 0 {
            verdict.evaluations += 1;
            if pong_after < pings_received {
                verdict.violations.push(viol("C12", "C12.no-progress", format!("{} ping(s) received, {} answered after the faults", pings_received, pong_after), "no-pong".into()));
            } else {
                probes.hit("pong_after_faults");
            }
        } else if !shutdown && session_end_seq(v.log, sid).is_some() && !cancelled {
            // the session ended without being asked to: finals do not exist in this document
            verdict.violations.push(viol("C12", "C12.no-progress", "the session ended although nothing ends it".into(), "ended-early".into()));
        }
        verdict.nontrivial = exercised >= 2 && pong_after > 0;
        verdict
    }
}
