//! One module per claimed property: workload generator + oracle.
pub mod c13;
pub mod common;

use crate::engine::Property;

pub fn by_id(id: &str) -> Option<&'static dyn Property> {
    match id {
        "C13" => Some(&c13::C13),
        _ => None,
    }
}

pub const ALL: &[&str] = &["C13"];
