//! One module per claimed property: workload generator + oracle.
pub mod c12;
pub mod c13;
pub mod c14;
pub mod c15;
pub mod c16;
pub mod c17;
pub mod c18;
pub mod c20;
pub mod common;
pub mod sc;

use crate::engine::Property;

pub fn by_id(id: &str) -> Option<&'static dyn Property> {
    match id {
        "C12" => Some(&c12::C12),
        "C13" => Some(&c13::C13),
        "C14" => Some(&c14::C14),
        "C15" => Some(&c15::C15),
        "C16" => Some(&c16::C16),
        "C17" => Some(&c17::C17),
        "C18" => Some(&c18::C18),
        "C20" => Some(&c20::C20),
        "C01" => Some(&sc::C01),
        "C02" => Some(&sc::C02),
        "C03" => Some(&sc::C03),
        "C06" => Some(&sc::C06),
        "C07" => Some(&sc::C07),
        "C08" => Some(&sc::C08),
        "C09" => Some(&sc::C09),
        _ => None,
    }
}

pub const ALL: &[&str] = &["C13", "C17"];
