//! One module per claimed property: workload generator + oracle.
pub mod c13;
pub mod c17;
pub mod common;

use crate::engine::Property;

pub fn by_id(id: &str) -> Option<&'static dyn Property> {
    match id {
        "C13" => Some(&c13::C13),
        "C17" => Some(&c17::C17),
        _ => None,
    }
}

pub const ALL: &[&str] = &["C13", "C17"];
