//! C17 — concurrent sessions never deadlock on the platform's internal locks.
//!
//! Workload: 2-3 peer sessions started by the driver that greet each other, reply to `_event.origin`,
//! arm timers and invoke children (inline content) while host tasks start further sessions, send events,
//! cancel sessions and (sometimes) call `FsmExecutor::shutdown()`.
//! Oracle: a run violates C17 iff the scheduler reports a deadlock (no runnable task while some task is
//! blocked) or the step budget is exhausted while tasks are blocked on rFSM locks. The deadlock
//! signature (role: held classes > wanted class, per blocked task) identifies the finding.

use super::common::*;
use crate::engine::{Probes, Property, RunView, Tier, Verdict};
use crate::scenario::{DocSrc, EvSpec, Knobs, PStep, Scenario, Step};
use crate::sched::SchedKind;
use crate::sim::Outcome;
use crate::util::Rng;
use rfsm_verif_seams::rec::RecKind;
use std::collections::BTreeMap;

pub struct C17Prop;
pub static C17: C17Prop = C17Prop;

pub struct PeerOpts {
    pub name: String,
    /// literal session ids greeted at start-up (must already be running)
    pub greet: Vec<u32>,
    pub ticks: u32,
    pub tick_ms: u64,
    pub invoke: Option<ChildOpts>,
    pub go_on_start: bool,
    /// the invoking state talks to its child (`#_kid`): on every hello / childmsg / poke it receives, i.e. also
    /// while the child session is still starting or already ending
    pub poke_kid: bool,
    /// the delayed ticks address the session through a variable (targetexpr) that the handlers read as well
    pub target_var: bool,
}

pub struct ChildOpts {
    pub msgs: u32,
    pub finish: bool,
    pub delayed_ms: Option<u64>,
    pub autoforward: bool,
}

fn child_doc(c: &ChildOpts) -> String {
    let mut s = String::new();
    s.push_str("<scxml xmlns=\"http://www.w3.org/2005/07/scxml\" version=\"1.0\" datamodel=\"rfsm-expression\" name=\"child\" initial=\"c0\"><datamodel><data id=\"a\" expr=\"0\"/><data id=\"m\" expr=\"0\"/></datamodel>");
    s.push_str("<state id=\"c0\"><onentry>");
    for k in 0..c.msgs {
        s.push_str(&format!("<send target=\"#_parent\" event=\"childmsg.{}\"/>", k));
    }
    if let Some(ms) = c.delayed_ms {
        s.push_str(&format!("<send target=\"#_parent\" event=\"childmsg.late\" delay=\"{}ms\"/>", ms));
    }
    s.push_str("</onentry>");
    s.push_str("<transition event=\"poke\"><send target=\"#_parent\" event=\"childmsg.poked\"/></transition>");
    // an autoforwarded event with an array: parent and child read its elements at the same time, in opposite order
    s.push_str("<transition event=\"arr\"><assign location=\"a\" expr=\"_event.data.p\"/><assign location=\"m\" expr=\"a[1] + a[0]\"/><assign location=\"m\" expr=\"a[1] + a[0]\"/><script>mark('carr')</script></transition>");
    if c.finish {
        s.push_str("<transition target=\"cdone\"/>");
    } else {
        s.push_str("<transition event=\"finish\" target=\"cdone\"/>");
    }
    s.push_str("</state><final id=\"cdone\"/></scxml>");
    s
}

pub fn peer_doc(o: &PeerOpts) -> String {
    let mut s = String::new();
    s.push_str(&format!(
        "<scxml xmlns=\"http://www.w3.org/2005/07/scxml\" version=\"1.0\" datamodel=\"rfsm-expression\" name=\"{}\" initial=\"idle\">\n",
        o.name
    ));
    s.push_str(" <datamodel><data id=\"n\" expr=\"0\"/><data id=\"t\" expr=\"0\"/><data id=\"g\" expr=\"0\"/><data id=\"a\" expr=\"0\"/><data id=\"me\" expr=\"'#_scxml_' + _sessionid\"/><data id=\"z\" expr=\"''\"/></datamodel>\n <state id=\"idle\">\n  <onentry>");
    for g in &o.greet {
        s.push_str(&format!("<send target=\"#_scxml_{}\" event=\"hello\"/>", g));
    }
    let tick_target = if o.target_var { " targetexpr=\"me\"" } else { "" };
    let read_me = if o.target_var { "<assign location=\"z\" expr=\"me + 'x'\"/><assign location=\"z\" expr=\"'y' + me\"/>" } else { "" };
    if o.ticks > 0 {
        s.push_str(&format!("<send event=\"tick\" delay=\"{}ms\"{}/>", o.tick_ms, tick_target));
    }
    if o.go_on_start {
        s.push_str("<if cond=\"g == 0\"><assign location=\"g\" expr=\"1\"/><raise event=\"go\"/></if>");
    }
    s.push_str("</onentry>\n");
    s.push_str(&format!("  <transition event=\"hello\"><send targetexpr=\"_event.origin\" event=\"hi\"/>{}</transition>\n", read_me));
    s.push_str(&format!("  <transition event=\"hi\"><assign location=\"n\" expr=\"n + 1\"/>{}</transition>\n", read_me));
    s.push_str(&format!("  <transition event=\"tick\" cond=\"t &lt; {}\"><assign location=\"t\" expr=\"t + 1\"/>", o.ticks));
    for g in &o.greet {
        s.push_str(&format!("<send target=\"#_scxml_{}\" event=\"hello\"/>", g));
    }
    s.push_str(&format!("{}<send event=\"tick\" delay=\"{}ms\"{}/></transition>\n", read_me, o.tick_ms, tick_target));
    s.push_str("  <transition event=\"go\" target=\"work\"/>\n");
    s.push_str("  <transition event=\"ping\"><script>mark('pong')</script></transition>\n </state>\n <state id=\"work\">\n");
    if let Some(c) = &o.invoke {
        s.push_str(&format!("  <invoke id=\"kid\" autoforward=\"{}\"><content>{}</content></invoke>\n", c.autoforward, child_doc(c)));
    }
    let poke = if o.poke_kid && o.invoke.is_some() { "<send target=\"#_kid\" event=\"poke\"/>" } else { "" };
    s.push_str(&format!("  <transition event=\"hello\"><send targetexpr=\"_event.origin\" event=\"hi\"/>{}</transition>\n", poke));
    s.push_str(&format!("  <transition event=\"childmsg.poked\"><assign location=\"n\" expr=\"n + 1\"/></transition>\n  <transition event=\"childmsg\"><assign location=\"n\" expr=\"n + 1\"/>{}</transition>\n", poke));
    s.push_str(&format!("  <transition event=\"poke\">{}</transition>\n", poke));
    s.push_str("  <transition event=\"arr\"><assign location=\"a\" expr=\"_event.data.p\"/><assign location=\"n\" expr=\"a[0] + a[1]\"/><assign location=\"n\" expr=\"a[0] + a[1]\"/><script>mark('parr')</script></transition>\n");
    s.push_str("  <transition event=\"back\" target=\"idle\"/>\n  <transition event=\"done.invoke\" target=\"idle\"/>\n");
    s.push_str("  <transition event=\"ping\"><script>mark('pong')</script></transition>\n </state>\n</scxml>\n");
    s
}

impl Property for C17Prop {
    fn id(&self) -> &'static str {
        "C17"
    }

    fn workloads(&self, tier: Tier) -> u64 {
        match tier {
            Tier::Quick => 25_000,
            Tier::Thorough => 250_000,
        }
    }

    fn schedules_per_workload(&self, tier: Tier) -> usize {
        match tier {
            Tier::Quick => 6,
            Tier::Thorough => 12,
        }
    }

    fn max_steps(&self) -> usize {
        150_000
    }

    fn sched_kind(&self, rng: &mut Rng, j: usize, est_len: usize) -> SchedKind {
        if j == 0 {
            SchedKind::Random
        } else if rng.chance(3, 10) {
            SchedKind::Random
        } else {
            SchedKind::Pct { depth: 2 + rng.below(4) as usize, est_len }
        }
    }

    fn nontrivial_rule(&self) -> &'static str {
        "a run is non-trivial when at least three tasks took rFSM locks and at least one lock was requested while another task held it (contention); distinct = distinct (scenario hash, interleaving signature) pairs"
    }

    fn required_probes(&self) -> Vec<&'static str> {
        vec!["concurrent_start", "invoke_started", "timer_fired", "timer_fired_while_session_busy", "cross_session_send", "cancel_sent", "shutdown_called", "lock_contention", "array_event_read_by_child"]
    }

    fn assumptions(&self) -> Vec<String> {
        vec![
            "deadlock = shuttle finds no runnable task while some task is blocked; lock classes E (executor state), P (I/O processor), G (per-session global data), V (data value), A (actions), Rx (receiver)".into(),
            "sends only address sessions that are known to be registered (unknown targets are C12's business)".into(),
        ]
    }

    fn generate(&self, rng: &mut Rng, tier: Tier, _index: u64) -> Scenario {
        let m = rng.range(2, 3) as usize; // driver-started peers, ids 1..m
        let extra = rng.range(0, if tier == Tier::Quick { 2 } else { 3 }) as usize;
        let mut docs = Vec::new();
        let exp = std::env::var("VERIF_EXPERIMENT_C17ARR").is_ok();
        let mk_child = |rng: &mut Rng| ChildOpts {
            msgs: rng.below(3) as u32,
            finish: rng.chance(1, 2) && !exp,
            delayed_ms: if rng.chance(1, 3) { Some(rng.range(1, 20)) } else { None },
            autoforward: rng.chance(1, 2) || exp,
        };
        for k in 0..m {
            // peer k+1 greets the peers started before it
            let greet: Vec<u32> = (1..=k as u32).filter(|_| rng.chance(2, 3)).collect();
            let o = PeerOpts {
                name: format!("peer{}", k + 1),
                greet,
                ticks: rng.below(3) as u32,
                tick_ms: rng.range(1, 15),
                invoke: if rng.chance(1, 2) || exp { Some(mk_child(rng)) } else { None },
                go_on_start: rng.chance(1, 4) || exp,
                poke_kid: rng.chance(1, 2),
                target_var: rng.chance(1, 2),
            };
            docs.push(DocSrc { name: o.name.clone(), xml: peer_doc(&o), via_rfsm: false, model: None });
        }
        for k in 0..extra {
            let greet: Vec<u32> = (1..=m as u32).filter(|_| rng.chance(2, 3)).collect();
            let o = PeerOpts {
                name: format!("late{}", k + 1),
                greet,
                ticks: rng.below(2) as u32,
                tick_ms: rng.range(1, 15),
                invoke: if rng.chance(1, 3) { Some(mk_child(rng)) } else { None },
                go_on_start: rng.chance(1, 3),
                poke_kid: rng.chance(1, 2),
                target_var: rng.chance(1, 2),
            };
            docs.push(DocSrc { name: o.name.clone(), xml: peer_doc(&o), via_rfsm: false, model: None });
        }
        let mut script: Vec<Step> = Vec::new();
        let jitter = rng.chance(1, 2);
        if jitter {
            script.push(Step::Jitter { on: true });
        }
        script.extend((0..m).map(|d| Step::Start { doc: d }));
        // host tasks
        let np = rng.range(1, 3) as usize;
        let mut producers: Vec<Vec<PStep>> = vec![Vec::new(); np];
        for k in 0..extra {
            let p = rng.below(np as u64) as usize;
            producers[p].push(PStep::Start { doc: m + k });
        }
        let evs = if exp { ["arr"; 10] } else { ["go", "back", "hello", "finish", "go", "back", "poke", "poke", "arr", "arr"] };
        let mk_ev = |name: &str| -> EvSpec {
            let mut e = EvSpec::simple(name);
            if name == "arr" {
                e.params.push(("p".into(), crate::scenario::PVal::Arr(vec![1, 2])));
            }
            e
        };
        for p in 0..np {
            for _ in 0..rng.range(1, 5) {
                let sess = rng.below(m as u64) as usize;
                let pos = rng.below(producers[p].len() as u64 + 1) as usize;
                if rng.chance(1, 8) {
                    producers[p].insert(pos, PStep::Cancel { sess });
                } else {
                    producers[p].insert(pos, PStep::Send { sess, ev: mk_ev(*rng.pick(&evs[..])) });
                }
                if rng.chance(1, 5) {
                    producers[p].push(PStep::Yield);
                }
            }
        }
        script.push(Step::Producers { ids: (0..np).collect() });
        for _ in 0..rng.below(3) {
            script.push(Step::Send { sess: rng.below(m as u64) as usize, ev: mk_ev(*rng.pick(&evs[..])) });
        }
        let shutdown = rng.chance(1, 6);
        if shutdown {
            script.push(Step::Shutdown);
        }
        script.push(Step::Quiesce);
        if jitter {
            script.push(Step::Jitter { on: false });
        }
        script.push(Step::DrainTimers { max: 12 });
        if !shutdown {
            for _ in 0..rng.below(3) {
                script.push(Step::Send { sess: rng.below(m as u64) as usize, ev: mk_ev(*rng.pick(&evs[..])) });
            }
            script.push(Step::DrainTimers { max: 12 });
        }
        script.push(Step::Ping);
        script.push(Step::Quiesce);
        let mut notes = BTreeMap::new();
        notes.insert("m".into(), m.to_string());
        Scenario { kind: "S3+S4+S5-mesh".into(), docs, files: vec![], script, producers, knobs: Knobs { snapshots: rng.chance(1, 2), ..Default::default() }, notes }
    }

    fn check(&self, v: &RunView, probes: &mut Probes) -> Verdict {
        let mut verdict = Verdict::default();
        verdict.evaluations = 1;
        // probes from the history (also for failed runs)
        let mut lock_tasks = v.rec.held.len();
        let mut starts_by_task: BTreeMap<usize, u32> = BTreeMap::new();
        for r in v.log {
            match &r.kind {
                RecKind::TimerFire { .. } => {
                    probes.hit("timer_fired");
                    if v.rec.counters.get("jitter_clock_advance").copied().unwrap_or(0) > 0 {
                        probes.hit("timer_fired_while_session_busy");
                    }
                }
                RecKind::Send { ev, .. } => {
                    if r.session != 0 && ev_name(ev) != "tick" {
                        probes.hit("cross_session_send");
                    }
                    if ev_name(ev) == "error.platform.cancel" {
                        probes.hit("cancel_sent");
                    }
                }
                RecKind::Driver { what } if what == "shutdown" => probes.hit("shutdown_called"),
                RecKind::Mark { args, .. } if args.first().map(|a| a.as_str()) == Some("'carr'") => probes.hit("array_event_read_by_child"),
                RecKind::Mark { args, .. } if args.first().map(|a| a.as_str()) == Some("'parr'") => probes.hit("array_event_read_by_parent"),
                RecKind::Spawn { .. } => {}
                RecKind::ThreadStart { .. } => {
                    lock_tasks += 0;
                }
                RecKind::SessionStart { session, .. } => {
                    // who started it? sessions beyond the driver-started ones are concurrent starts / invokes
                    *starts_by_task.entry(r.task).or_insert(0) += 1;
                    let m: u32 = v.sc.notes.get("m").and_then(|x| x.parse().ok()).unwrap_or(0);
                    if *session > m {
                        probes.hit("concurrent_start");
                    }
                }
                RecKind::Snapshot { children, .. } if !children.is_empty() => probes.hit("invoke_started"),
                _ => {}
            }
        }
        if !v.sc.knobs.snapshots {
            // without snapshots, invokes are visible as sessions started beyond the scripted ones
            let scripted = v.sc.docs.len() as u32;
            if v.rec.session_task.keys().any(|s| *s > scripted) {
                probes.hit("invoke_started");
            }
        }
        let contended = v.rec.counters.get("lock_contended").copied().unwrap_or(0);
        if contended > 0 {
            probes.hit("lock_contention");
        }
        verdict.nontrivial = v.rec.task_names.len() >= 3 && contended > 0;
        let _ = lock_tasks;
        match v.outcome {
            Outcome::Completed => {}
            Outcome::Deadlock { msg, tasks } => {
                let sig = deadlock_signature(tasks);
                if sig.is_empty() {
                    // nobody waits for an rFSM lock: the blocked set is harness-only
                    verdict.discarded = Some(format!("harness: deadlock without rFSM lock waiters: {}", msg));
                } else {
                    verdict.violations.push(viol("C17", "C17.deadlock", format!("no runnable task; blocked: {} ({})", sig, msg), sig));
                }
            }
            Outcome::StepBound { tasks } => {
                let sig = deadlock_signature(tasks);
                if sig.is_empty() {
                    verdict.discarded = Some("step bound without blocked lock waiters".into());
                } else {
                    verdict.violations.push(viol("C17", "C17.no-progress", format!("step budget exhausted with tasks blocked on locks: {}", sig), sig));
                }
            }
            Outcome::Panic { msg, .. } if msg.contains("tried to acquire a Mutex it already holds") => {
                // a task that takes a lock it holds already: with std's mutexes it blocks forever (or panics); the
                // controlled scheduler reports it as a panic of that task
                let role = if msg.contains("timer") { "timer" } else if msg.contains("fsm") { "session" } else { "host" };
                verdict.violations.push(viol("C17", "C17.deadlock", format!("a task locks a mutex it holds already: {}", msg), format!("self-deadlock:{}", role)));
            }
            Outcome::Panic { msg, location, .. } => {
                verdict.other_rules.push(format!("C12.panic@{}:{}", location, msg.chars().take(60).collect::<String>()));
                verdict.discarded = Some("panic (C12)".into());
            }
            Outcome::ReplayDiverged(d) => verdict.discarded = Some(format!("replay diverged: {}", d)),
            Outcome::Harness(h) => verdict.discarded = Some(format!("harness: {}", h)),
        }
        verdict
    }
}
