//! Helpers shared by the property oracles: views over the recorded history.

use crate::engine::{RunView, Verdict, Violation};
use crate::sim::Outcome;
use rfsm_verif_seams::rec::{EvDesc, Rec, RecKind};
use std::collections::BTreeMap;

pub fn viol(prop: &str, rule: &str, msg: String, signature: String) -> Violation {
    Violation { property: prop.to_string(), rule: rule.to_string(), msg, signature }
}

/// Records of one session, in order.
pub fn session_log<'a>(log: &'a [Rec], session: u32) -> Vec<&'a Rec> {
    log.iter().filter(|r| r.session == session).collect()
}

pub fn chan_of_session(v: &RunView, session: u32) -> Option<usize> {
    v.rec.session_chan.get(&session).copied()
}

/// How every property treats run outcomes that are the business of C12 / C17: the run is discarded for
/// this property and the rule is remembered under other_rules. Returns None if the run completed.
pub fn outcome_gate(v: &RunView, verdict: &mut Verdict) -> bool {
    match v.outcome {
        Outcome::Completed => true,
        Outcome::Panic { msg, location, .. } => {
            verdict.other_rules.push(format!("C12.panic@{}:{}", location, msg.chars().take(60).collect::<String>()));
            verdict.discarded = Some("panic (C12)".into());
            false
        }
        Outcome::Deadlock { .. } => {
            verdict.other_rules.push("C17.deadlock".into());
            verdict.discarded = Some("deadlock (C17)".into());
            false
        }
        Outcome::StepBound { .. } => {
            verdict.discarded = Some("step bound".into());
            false
        }
        Outcome::ReplayDiverged(d) => {
            verdict.discarded = Some(format!("replay diverged: {}", d));
            false
        }
        Outcome::Harness(h) => {
            verdict.discarded = Some(format!("harness: {}", h));
            false
        }
    }
}

/// Signature of a deadlock: the wait-for cycle(s) among tasks blocked on rFSM locks. For every task on a
/// cycle: role, the class of the held lock the previous task on the cycle waits for, and the wanted
/// class. Tasks that are merely blocked behind the cycle are not part of the signature. A task that
/// waits for a lock it holds itself is a cycle of length one.
pub fn deadlock_signature(tasks: &[crate::sim::TaskLockState]) -> String {
    use std::collections::BTreeMap;
    let by_task: BTreeMap<usize, &crate::sim::TaskLockState> = tasks.iter().map(|t| (t.task, t)).collect();
    let mut cycles: Vec<String> = Vec::new();
    let mut on_cycle: std::collections::BTreeSet<usize> = Default::default();
    for t in tasks {
        if on_cycle.contains(&t.task) || t.wants.is_none() {
            continue;
        }
        // follow blocked_by until we come back to a visited task
        let mut path: Vec<usize> = vec![t.task];
        let mut cur = t.task;
        let found: Option<usize> = loop {
            let nxt = match by_task.get(&cur).and_then(|x| x.blocked_by) {
                Some(n) => n,
                None => break None,
            };
            if let Some(pos) = path.iter().position(|x| *x == nxt) {
                break Some(pos);
            }
            if by_task.get(&nxt).map(|x| x.wants.is_none()).unwrap_or(true) {
                break None; // chain ends at a task that is not waiting for a lock
            }
            path.push(nxt);
            cur = nxt;
        };
        if let Some(pos) = found {
            let cyc: Vec<usize> = path[pos..].to_vec();
            if cyc.iter().any(|c| on_cycle.contains(c)) {
                continue;
            }
            let n = cyc.len();
            let mut parts: Vec<String> = Vec::new();
            for i in 0..n {
                let me = by_task[&cyc[i]];
                let prev = by_task[&cyc[(i + n - 1) % n]];
                // the lock of mine that prev waits for
                let held_class = if prev.wants.as_deref() == Some("join") {
                    // prev waits for my thread to end
                    "thread".to_string()
                } else {
                    prev.wants_id
                        .and_then(|wid| me.holds_ids.iter().position(|h| *h == wid))
                        .map(|p| me.holds[p].clone())
                        .unwrap_or_else(|| "?".into())
                };
                parts.push(format!("{}[{}]>{}", role_of(&me.name), held_class, me.wants.clone().unwrap_or_default()));
            }
            // canonical rotation
            let mut best = parts.clone();
            for r in 1..n {
                let mut rot = parts.clone();
                rot.rotate_left(r);
                if rot < best {
                    best = rot;
                }
            }
            for c in &cyc {
                on_cycle.insert(*c);
            }
            cycles.push(best.join(" -> "));
        }
    }
    if cycles.is_empty() {
        // no cycle: a task waits for a lock whose holder is blocked in something that is not a lock (an idle
        // receive, a condition): the lock is held across a wait that nobody can end
        for t in tasks {
            if let (Some(class), Some(owner)) = (&t.wants, t.blocked_by) {
                if class == "join" {
                    continue;
                }
                if let Some(o) = by_task.get(&owner) {
                    if o.wants.is_none() && t.wants_id.map(|w| o.holds_ids.contains(&w)).unwrap_or(false) {
                        cycles.push(format!("{}[{}]>wait <- {}>{}", role_of(&o.name), class, role_of(&t.name), class));
                    }
                }
            }
        }
    }
    cycles.sort();
    cycles.dedup();
    cycles.join(" || ")
}

pub fn role_of(name: &str) -> &'static str {
    if name.starts_with("fsm_") {
        "session"
    } else if name.starts_with("timer") {
        "timer"
    } else if name.starts_with("producer") {
        "host"
    } else if name.is_empty() || name == "main-thread" {
        "host"
    } else {
        "other"
    }
}

pub fn ev_name(e: &Option<EvDesc>) -> &str {
    e.as_ref().map(|x| x.name.as_str()).unwrap_or("?")
}

/// sends on a channel: (seq, task, ev_id, desc)
pub fn sends_on<'a>(log: &'a [Rec], chan: usize) -> Vec<(u64, usize, u64, &'a Option<EvDesc>)> {
    log.iter()
        .filter_map(|r| match &r.kind {
            RecKind::Send { chan: c, ev_id, ev, ok } if *c == chan && *ok => Some((r.seq, r.task, *ev_id, ev)),
            _ => None,
        })
        .collect()
}

pub fn recvs_on(log: &[Rec], chan: usize) -> BTreeMap<u64, Vec<u64>> {
    let mut m: BTreeMap<u64, Vec<u64>> = BTreeMap::new();
    for r in log {
        if let RecKind::Recv { chan: c, ev_id } = &r.kind {
            if *c == chan {
                m.entry(*ev_id).or_default().push(r.seq);
            }
        }
    }
    m
}

pub fn session_end_seq(log: &[Rec], session: u32) -> Option<u64> {
    log.iter().find_map(|r| match &r.kind {
        RecKind::SessionEnd { session: s } if *s == session => Some(r.seq),
        _ => None,
    })
}
