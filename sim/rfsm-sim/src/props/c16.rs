//! C16 — delayed sends fire once, not early, in due-time order, unless cancelled.
//!
//! Workload S5: one session whose transitions issue delayed sends (several spellings of the delay,
//! literal ids, idlocation, repeated ids, params evaluated from data that changes afterwards) and
//! cancels (sendid, sendidexpr, unknown ids); the driver interleaves trigger events with clock
//! advances (discrete-event jumps, or a jitter clock task that fires timers while the session is
//! busy) and sometimes stops the session before timers are due.
//! Oracle: timer history (schedule / cancel / fire in simulated time) + transport history + the
//! reference interpreter's view of which sends and cancels were executed.

use super::common::*;
use crate::engine::{Probes, Property, RunView, Tier, Verdict};
use crate::gen::{DataDecl, Dm, Doc, Exec, Expr, Initial, Kind, Node, Trans};
use crate::refsm::{Obs, Quirks};
use crate::scenario::{DocSrc, EvSpec, Knobs, Scenario, Step};
use crate::trace::{compare, predict_full, real_trace};
use crate::util::Rng;
use rfsm_verif_seams::rec::RecKind;
use std::collections::{BTreeMap, BTreeSet};

pub struct C16Prop;
pub static C16: C16Prop = C16Prop;

/// a delay in ms and a spelling that denotes exactly that value
fn spelled(rng: &mut Rng) -> (u64, String) {
    match rng.below(15) {
        // a fractional number of milliseconds is rounded to the nearest one (a truncating conversion would
        // shorten these by 1 ms, "0.9ms" to no delay at all)
        13 => {
            let n = rng.range(0, 40);
            if rng.below(2) == 0 { (n + 1, format!("{}.9ms", n)) } else { (n + 1, format!("{}.5ms", n)) }
        }
        14 => (1_001, "1.0007s".to_string()),
        7 => {
            // above 65 535 ms (what a 16 bit field could hold in the binary model)
            let n = rng.range(2, 4);
            (n * 60_000, format!("{}m", n))
        }
        8 => (90_000, "1.5m".to_string()),
        9 => {
            let n = rng.range(1, 3);
            (n * 3_600_000, format!("{}h", n))
        }
        10 => (3_600, "0.001h".to_string()),
        11 => (43_200_000, "0.5d".to_string()),
        12 => (7_200_000, "2H".to_string()),
        0 => {
            let n = rng.range(1, 90);
            (n, format!("{}ms", n))
        }
        1 => {
            let n = rng.range(1, 5);
            (n * 1000, format!("{}s", n))
        }
        2 => {
            let n = rng.range(1, 30);
            (n * 100, format!("{}.{}s", n / 10, n % 10))
        }
        3 => (60_000, "1m".to_string()),
        4 => {
            let n = rng.range(1, 9);
            (n * 10, format!("0.0{}s", n))
        }
        5 => (30_000, "0.5m".to_string()),
        _ => {
            let n = rng.range(100, 400);
            (n, format!("{}MS", n))
        }
    }
}

#[derive(Clone, Debug)]
struct SendPlan {
    event: String,
    ms: u64,
    id: Option<String>,
}

fn build_doc(rng: &mut Rng, nsteps: usize) -> (Doc, Vec<SendPlan>) {
    let mut root = Node::new("", Kind::State);
    root.data = vec![
        DataDecl { id: "x".into(), expr: Some(Expr::Int(1)) },
        DataDecl { id: "sid".into(), expr: Some(Expr::Str("none".into())) },
        DataDecl { id: "tgt".into(), expr: Some(Expr::Str("#_scxml_1".into())) },
        DataDecl { id: "arr".into(), expr: Some(Expr::Array(vec![Expr::Int(1), Expr::Int(2), Expr::Int(3)])) },
    ];
    root.initial = Initial::Attr(vec!["run".into()]);
    let mut run = Node::new("run", Kind::State);
    let mut plans: Vec<SendPlan> = Vec::new();
    let ids = ["i1", "i2", "i3"];
    let mut heartbeats: Vec<Trans> = Vec::new();
    for k in 0..nsteps {
        let mut t = Trans { events: vec![format!("go.{}", k)], label: format!("go{}", k), ..Default::default() };
        t.content.push(Exec::Mark(format!("go{}", k), vec![Expr::Var("x".into())]));
        let nact = rng.range(1, 3);
        for a in 0..nact {
            match rng.below(10) {
                0..=5 => {
                    let (ms, text) = spelled(rng);
                    let mut event = format!("d.{}.{}", k, a);
                    let (id, idlocation) = match rng.below(5) {
                        0 | 1 => (Some(rng.pick(&ids[..]).to_string()), None),
                        2 => (None, Some("sid".to_string())),
                        _ => (None, None),
                    };
                    // sends without id that carry the same event name (a retry / poll pattern): several of them
                    // are pending at once, each is an event of its own (told apart by their data)
                    if id.is_none() && idlocation.is_none() && rng.chance(1, 2) {
                        event = "d.anon".to_string();
                    }
                    // the payload as the value of <content expr>, changed right after the <send>
                    let by_content = rng.chance(1, 5);
                    if by_content {
                        event = format!("c.{}.{}", k, a);
                    }
                    plans.push(SendPlan { event: event.clone(), ms, id: id.clone() });
                    // a third of the sends address the session through a variable that is re-pointed at a
                    // session that does not exist right after the <send>: target and data are those of the
                    // moment of execution
                    let via_var = rng.chance(1, 3);
                    if via_var {
                        t.content.push(Exec::Assign { loc: "tgt".into(), expr: Expr::Str("#_scxml_1".into()) });
                    }
                    t.content.push(Exec::Send {
                        event,
                        target: if via_var { Some("@var:tgt".into()) } else { None },
                        delay_ms: ms,
                        id,
                        params: if by_content {
                            // (rfsm-expression refuses containers as the result of a script: scalars only)
                            vec![("@content".into(), Expr::Var("x".into()))]
                        } else if rng.chance(1, 4) {
                            vec![("v".into(), Expr::Var("x".into())), ("@loc:a".into(), Expr::Var("arr".into()))]
                        } else {
                            vec![("v".into(), Expr::Var("x".into()))]
                        },
                        delay_text: Some(text),
                        delay_expr: rng.chance(1, 4),
                        idlocation,
                    });
                    // ... also inside a container that was passed along
                    t.content.push(Exec::Assign { loc: "arr[0]".into(), expr: Expr::Add(Box::new(Expr::Var("x".into())), Box::new(Expr::Int(100))) });
                    // the data changes right after the send: delivery must carry the old value
                    t.content.push(Exec::Assign { loc: "x".into(), expr: Expr::Add(Box::new(Expr::Var("x".into())), Box::new(Expr::Int(1))) });
                    if via_var {
                        t.content.push(Exec::Assign { loc: "tgt".into(), expr: Expr::Str("#_scxml_99".into()) });
                    }
                }
                6..=8 => {
                    if rng.chance(1, 4) {
                        t.content.push(Exec::Cancel { sendid: String::new(), by_expr: Some("sid".into()) });
                    } else if rng.chance(1, 6) {
                        t.content.push(Exec::Cancel { sendid: "nosuchid".into(), by_expr: None });
                    } else {
                        t.content.push(Exec::Cancel { sendid: rng.pick(&ids[..]).to_string(), by_expr: None });
                    }
                }
                _ => {
                    t.content.push(Exec::Assign { loc: "x".into(), expr: Expr::Add(Box::new(Expr::Var("x".into())), Box::new(Expr::Int(10))) });
                }
            }
        }
        // heartbeat pattern: the handler of a delivered delayed event re-arms a delayed send with the same id
        if rng.chance(1, 3) {
            let (ms, text) = spelled(rng);
            let id = rng.pick(&ids[..]).to_string();
            t.content.push(Exec::Send { event: format!("hb.{}", k), target: None, delay_ms: ms, id: Some(id.clone()), params: vec![], delay_text: Some(text), delay_expr: false, idlocation: None });
            let (ms2, text2) = spelled(rng);
            let mut h = Trans { events: vec![format!("hb.{}", k)], label: format!("hb{}", k), ..Default::default() };
            h.content.push(Exec::Mark(format!("hb{}", k), vec![Expr::EventName]));
            h.content.push(Exec::Send { event: format!("d.hb.{}", k), target: None, delay_ms: ms2, id: Some(id), params: vec![("v".into(), Expr::Var("x".into()))], delay_text: Some(text2), delay_expr: false, idlocation: None });
            heartbeats.push(h);
        }
        run.trans.push(t);
    }
    run.trans.extend(heartbeats);
    run.trans.push(Trans {
        events: vec!["d".into()],
        label: "deliver".into(),
        content: vec![Exec::Mark("d".into(), vec![Expr::EventName, Expr::EventData("v".into()), Expr::EventField("sendid".into())])],
        ..Default::default()
    });
    run.trans.push(Trans { events: vec!["c".into()], label: "deliver-content".into(), content: vec![Exec::Mark("c".into(), vec![Expr::EventName, Expr::EventField("sendid".into())])], ..Default::default() });
    run.trans.push(Trans { events: vec!["stop".into()], targets: vec!["fin".into()], label: "stop".into(), ..Default::default() });
    root.children.push(run);
    root.children.push(Node::new("fin", Kind::Final));
    (Doc { name: "timers".into(), dm: Dm::Rfsm, late: false, root }, plans)
}

impl Property for C16Prop {
    fn id(&self) -> &'static str {
        "C16"
    }

    fn workloads(&self, tier: Tier) -> u64 {
        match tier {
            Tier::Quick => 50_000,
            Tier::Thorough => 500_000,
        }
    }

    fn schedules_per_workload(&self, tier: Tier) -> usize {
        match tier {
            Tier::Quick => 3,
            Tier::Thorough => 6,
        }
    }

    fn max_steps(&self) -> usize {
        120_000
    }

    fn nontrivial_rule(&self) -> &'static str {
        "non-trivial: at least two delayed sends were scheduled and at least one of {a cancel hit a pending send, a timer fired while the session was busy, the session ended with sends pending}; distinct = distinct (scenario hash, interleaving signature)"
    }

    fn required_probes(&self) -> Vec<&'static str> {
        vec!["delivered", "cancel_before_due", "cancel_after_fire_or_unknown", "timer_fired_while_session_busy", "same_id_pending_twice", "ended_with_pending", "clock_jump_over_several"]
    }

    fn assumptions(&self) -> Vec<String> {
        vec![
            "the timer crate is replaced by a simulated timer wheel with the same API (schedule_with_delay, Guard drop cancels, ignore()); what runs for real is rFSM's delay parsing, argument evaluation, the delivery closure, guard bookkeeping, <cancel> and teardown".into(),
            "time is simulated: 'not early' is judged against the delay rFSM hands to the timer".into(),
        ]
    }

    fn generate(&self, rng: &mut Rng, tier: Tier, _index: u64) -> Scenario {
        let nsteps = rng.range(2, if tier == Tier::Quick { 5 } else { 7 }) as usize;
        let (doc, _plans) = build_doc(rng, nsteps);
        let jitter = rng.chance(1, 2);
        let mut script = Vec::new();
        if jitter {
            script.push(Step::Jitter { on: true });
        }
        script.push(Step::Start { doc: 0 });
        let stop_at = if rng.chance(1, 4) { Some(rng.below(nsteps as u64 + 1) as usize) } else { None };
        for k in 0..nsteps {
            if stop_at == Some(k) {
                if rng.chance(1, 2) {
                    script.push(Step::Send { sess: 0, ev: EvSpec::simple("stop") });
                } else {
                    script.push(Step::Cancel { sess: 0 });
                }
            }
            script.push(Step::Send { sess: 0, ev: EvSpec::simple(&format!("go.{}", k)) });
            match rng.below(5) {
                0 => {}
                1 => script.push(Step::Quiesce),
                2 => script.push(Step::Advance { ms: rng.range(1, 120) }),
                3 => script.push(Step::Advance { ms: rng.range(500, 5000) }),
                _ => script.push(Step::DrainTimers { max: 1 }),
            }
        }
        if jitter {
            script.push(Step::Quiesce);
            script.push(Step::Jitter { on: false });
        }
        if rng.chance(1, 5) {
            // clock jump over everything that is still pending
            script.push(Step::Advance { ms: 200_000 });
        }
        script.push(Step::DrainTimers { max: 24 });
        let mut notes = BTreeMap::new();
        notes.insert("jitter".into(), jitter.to_string());
        let xml = crate::gen::render(&doc);
        Scenario { kind: "S5-timers".into(), docs: vec![DocSrc { name: "timers".into(), xml, via_rfsm: rng.chance(1, 10), model: Some(doc) }], files: vec![], script, producers: vec![], knobs: Knobs { snapshots: rng.chance(1, 2), ..Default::default() }, notes }
    }

    fn shrink_docs(&self, sc: &Scenario) -> Vec<Scenario> {
        let doc = match sc.docs.first().and_then(|d| d.model.as_ref()) {
            Some(d) => d,
            None => return vec![],
        };
        let mut out = Vec::new();
        for cand in super::sc::shrink_doc_candidates(doc) {
            if crate::refsm::Model::new(&cand).validate().is_err() {
                continue;
            }
            let mut c = sc.clone();
            c.docs[0].xml = crate::gen::render(&cand);
            c.docs[0].model = Some(cand);
            out.push(c);
        }
        out
    }

    fn check(&self, v: &RunView, probes: &mut Probes) -> Verdict {
        let mut verdict = Verdict::default();
        if !outcome_gate(v, &mut verdict) {
            return verdict;
        }
        let sid = match v.out.root_sessions.first() {
            Some(s) if *s != 0 => *s,
            _ => {
                verdict.discarded = Some(format!("harness: session not started: {:?}", v.out.start_errors));
                return verdict;
            }
        };
        let doc = v.sc.docs[0].model.as_ref().unwrap();
        let real = real_trace(v, sid);
        let pred = predict_full(doc, sid, &real.inputs, &Quirks::rfsm());
        verdict.evaluations = real.obs.len() as u64;
        let mut vio = Vec::new();

        // ---- the timer history of this session
        #[derive(Debug, Clone)]
        struct Item {
            item: u64,
            sched_seq: u64,
            sched_time: u64,
            delay: i64,
            due: u64,
            cancel: Option<(u64, bool, u64)>, // (time, fired-before-cancel, seq)
            cancelled_by_firing_item: Option<(u64, Option<u64>)>, // the guard was dropped by the timer callback of this other item (item, seq of its delivery if it had already delivered)
            fire_time: Option<u64>,
            deliveries: Vec<(u64, String, Option<Vec<(String, String)>>, u64)>, // (time, event, params, seq)
            discarded: bool,
        }
        let mut items: Vec<Item> = Vec::new();
        let mut own_timers: BTreeSet<usize> = BTreeSet::new();
        let mut firing: BTreeMap<usize, (u64, Option<u64>)> = BTreeMap::new();
        let end_seq = session_end_seq(v.log, sid);
        let chan = chan_of_session(v, sid);
        for r in v.log {
            match &r.kind {
                RecKind::TimerSched { timer, item, due, delay } if r.session == sid => {
                    own_timers.insert(*timer);
                    items.push(Item { item: *item, sched_seq: r.seq, sched_time: r.time, delay: *delay, due: *due, cancel: None, cancelled_by_firing_item: None, fire_time: None, deliveries: vec![], discarded: false });
                }
                RecKind::TimerCancel { item, fired } => {
                    let by = firing.get(&r.task).copied();
                    if let Some(i) = items.iter_mut().find(|i| i.item == *item) {
                        if i.cancel.is_none() {
                            i.cancel = Some((r.time, *fired, r.seq));
                            if by.map(|b| b.0) != Some(*item) {
                                i.cancelled_by_firing_item = by;
                            }
                        }
                    }
                }
                RecKind::TimerFire { item } => {
                    if let Some(i) = items.iter_mut().find(|i| i.item == *item) {
                        i.fire_time = Some(r.time);
                        firing.insert(r.task, (*item, None));
                    }
                }
                RecKind::TimerFireDone { .. } => {
                    firing.remove(&r.task);
                }
                RecKind::Send { chan: c, ev, ok: true, .. } => {
                    if let Some((item, delivered)) = firing.get_mut(&r.task) {
                        if delivered.is_none() {
                            *delivered = Some(r.seq);
                        }
                        if let Some(i) = items.iter_mut().find(|i| i.item == *item) {
                            if Some(*c) == chan {
                                i.deliveries.push((r.time, ev_name(ev).to_string(), ev.as_ref().and_then(crate::trace::payload_of), r.seq));
                            }
                        }
                    }
                }
                RecKind::TimerDrop { timer, .. } if own_timers.contains(timer) => {
                    for i in items.iter_mut() {
                        if i.fire_time.is_none() && i.cancel.is_none() {
                            i.discarded = true;
                        }
                    }
                }
                _ => {}
            }
        }

        // ---- executed delayed sends according to the reference, in order: k-th <-> k-th TimerSched
        let expected_sends: Vec<(String, u64, Option<String>, Option<Vec<(String, String)>>, usize)> = pred
            .obs
            .iter()
            .enumerate()
            .filter_map(|(i, o)| match o {
                Obs::Sent { event, delay_ms, sendid, params, .. } if *delay_ms > 0 => Some((event.clone(), *delay_ms, sendid.clone(), params.clone(), i)),
                _ => None,
            })
            .collect();
        let refinement = compare(&pred.obs, &real, v.sc.knobs.snapshots, false);
        if let Some(d) = &refinement {
            if d.family == "send" {
                vio.push(viol("C16", "C16.wrong-delay", format!("delayed send differs from the reference: expected {:?}, got {:?}", d.expected, d.got), "send-args".into()));
            } else {
                verdict.other_rules.push(format!("refinement.{}", d.family));
            }
        }
        if expected_sends.len() != items.len() && refinement.is_none() {
            vio.push(viol("C16", "C16.lost", format!("{} delayed sends executed, {} timers scheduled", expected_sends.len(), items.len()), "sched-count".into()));
        }
        // expected cancels: position (index in pred.obs) and id
        let cancels: Vec<(usize, String)> = pred.obs.iter().enumerate().filter_map(|(i, o)| if let Obs::Cancelled(id) = o { Some((i, id.clone())) } else { None }).collect();
        // simulated time at which a <cancel> at prediction index `cpos` was executed: the time of the real
        // observation that precedes it (prediction and reality are aligned when the refinement holds)
        let keep = |o: &Obs| !matches!(o, Obs::Cancelled(_)) && (v.sc.knobs.snapshots || !matches!(o, Obs::Config(_)));
        let real_kept_seqs: Vec<u64> = real.obs.iter().zip(real.seqs.iter()).filter(|(o, _)| keep(o)).map(|(_, s)| *s).collect();
        let time_of_seq: BTreeMap<u64, u64> = v.log.iter().map(|r| (r.seq, r.time)).collect();
        // (sequence number, simulated time) of the real observation that FOLLOWS a <cancel> at prediction index
        // `cpos`: the cancel was executed before it (the clock may jump between two observations, so only this
        // upper bound is sound)
        let cancel_upper = |cpos: usize| -> Option<(u64, u64)> {
            let k = pred.obs.iter().take(cpos).filter(|o| keep(o)).count();
            match real_kept_seqs.get(k) {
                Some(s) => time_of_seq.get(s).map(|t| (*s, *t)),
                None => Some((u64::MAX, v.rec.now)),
            }
        };
        let n = expected_sends.len().min(items.len());
        for k in 0..n {
            let (ev, ms, sendid, params, pos) = &expected_sends[k];
            let it = &items[k];
            verdict.evaluations += 1;
            if it.delay != *ms as i64 {
                vio.push(viol("C16", "C16.wrong-delay", format!("send of '{}': delay {} ms handed to the timer, document says {} ms", ev, it.delay, ms), "wrong-delay".into()));
            }
            // was a cancel for this id executed after this send and before another send reused the id?
            let mut cancelled_by_doc = false;
            let mut doc_cancel_time: Option<(u64, u64)> = None;
            let mut replaced_by_same_id = false;
            // the first <cancel> with this send's id executed after it, whether or not the id was reused in between:
            // a cancel is meant for every pending send with that id
            let mut any_cancel_time: Option<(u64, u64)> = None;
            if let Some(id) = sendid {
                for (cpos, cid) in &cancels {
                    if cpos > pos && cid == id && any_cancel_time.is_none() {
                        any_cancel_time = cancel_upper(*cpos);
                    }
                    if cpos > pos && (cid == id || (id.starts_with("<generated:") && cid.starts_with("<generated:") && cid == id)) {
                        // only if no later send with the same id lies between
                        let reuse_between = expected_sends.iter().any(|(_, _, s2, _, p2)| p2 > pos && p2 < cpos && s2.as_ref() == Some(id));
                        if !reuse_between {
                            cancelled_by_doc = true;
                            if doc_cancel_time.is_none() {
                                doc_cancel_time = cancel_upper(*cpos);
                            }
                        }
                    }
                }
                replaced_by_same_id = expected_sends.iter().any(|(_, _, s2, _, p2)| p2 > pos && s2.as_ref() == Some(id) && !id.starts_with("<generated:"));
                if replaced_by_same_id && it.fire_time.is_none() {
                    probes.hit("same_id_pending_twice");
                }
            }
            // deliveries
            if it.deliveries.len() > 1 {
                vio.push(viol("C16", "C16.duplicate", format!("delayed event '{}' delivered {} times", ev, it.deliveries.len()), "duplicate".into()));
            }
            for (t, name, p, _) in &it.deliveries {
                probes.hit("delivered");
                if *t < it.sched_time + *ms {
                    vio.push(viol("C16", "C16.early", format!("'{}' delivered at {} ms, executed at {} ms with delay {} ms", name, t, it.sched_time, ms), "early".into()));
                }
                if name != ev {
                    vio.push(viol("C16", "C16.late-eval", format!("delayed send of '{}' delivered event '{}'", ev, name), "event-name".into()));
                }
                if p != params {
                    vio.push(viol("C16", "C16.late-eval", format!("'{}' delivered with data {:?}; its arguments evaluated at execution time were {:?}", ev, p, params), "late-eval".into()));
                }
            }
            match it.cancel {
                Some((ct, fired, cseq)) => {
                    // a guard was dropped: legitimate only if the document cancelled this id, or the callback
                    // itself removed it (fired), or the session ended
                    let at_end = end_seq.map(|e| cseq > e).unwrap_or(false) || it.discarded;
                    if !fired {
                        if cancelled_by_doc {
                            probes.hit("cancel_before_due");
                            if !it.deliveries.is_empty() {
                                vio.push(viol("C16", "C16.cancel-ignored", format!("'{}' was cancelled at {} ms (due {}) and still delivered", ev, ct, it.due), "cancel-ignored".into()));
                            }
                        } else if let (Some((_, dseq)), false) = (it.cancelled_by_firing_item, at_end) {
                            if dseq.map(|d| it.sched_seq > d).unwrap_or(false) {
                                // not the known same-id overlap: this send was executed only after the earlier one had
                                // been delivered (e.g. by the handler of the delivered event); a callback that has
                                // delivered has no business with the bookkeeping any more
                                probes.hit("rearmed_same_id_after_fire");
                                vio.push(viol("C16", "C16.cancel-overreach", format!("delayed send '{}' (id {:?}), executed after the earlier send with that id had been delivered, was cancelled by that earlier send's timer callback", ev, sendid), "callback-removes-guard-of-send-executed-after-its-delivery".into()));
                            } else {
                                vio.push(viol("C16", "C16.cancel-overreach", format!("pending delayed send '{}' (id {:?}) was cancelled by the delivery callback of an earlier send with the same id", ev, sendid), "same-id-reuse:callback-removes-later-guard".into()));
                            }
                        } else if replaced_by_same_id && !at_end {
                            vio.push(viol("C16", "C16.lost", format!("pending delayed send '{}' (id {:?}) was dropped when a later send reused its id; no <cancel> was executed for it", ev, sendid), "same-id-reuse".into()));
                        } else if !at_end {
                            vio.push(viol("C16", "C16.cancel-overreach", format!("pending delayed send '{}' (id {:?}) was cancelled although no <cancel> for its id was executed", ev, sendid), "overreach".into()));
                        }
                    } else {
                        probes.hit("cancel_after_fire_or_unknown");
                    }
                }
                None => {}
            }
            // a <cancel> for this id executed strictly before the due time must prevent delivery, whatever the
            // platform did with its bookkeeping (no reuse of the id in between, refinement holds)
            if refinement.is_none() && cancelled_by_doc && !replaced_by_same_id {
                if let Some((cseq, ctime)) = doc_cancel_time {
                    verdict.evaluations += 1;
                    let fire_seq = v.log.iter().find(|r| matches!(&r.kind, RecKind::TimerFire { item } if *item == it.item)).map(|r| r.seq);
                    // the timer fired only after the cancel had certainly been executed, and the cancel was
                    // executed before the due time
                    let fired_after_cancel = fire_seq.map(|f| f > cseq).unwrap_or(false);
                    if ctime < it.due && fired_after_cancel && !it.deliveries.is_empty() {
                        vio.push(viol("C16", "C16.cancel-ignored", format!("'{}' (id {:?}) was cancelled before {} ms, i.e. before its due time {} ms, and was delivered anyway", ev, sendid, ctime, it.due), "cancel-ignored".into()));
                    }
                }
            }
            // ... also for a send whose id was reused by a later send before the cancel: the cancel names the id,
            // it is meant for both
            if refinement.is_none() && replaced_by_same_id {
                if let Some((cseq, ctime)) = any_cancel_time {
                    verdict.evaluations += 1;
                    let fire_seq = v.log.iter().find(|r| matches!(&r.kind, RecKind::TimerFire { item } if *item == it.item)).map(|r| r.seq);
                    let fired_after_cancel = fire_seq.map(|f| f > cseq).unwrap_or(false);
                    if ctime < it.due && fired_after_cancel && !it.deliveries.is_empty() {
                        vio.push(viol("C16", "C16.cancel-ignored", format!("'{}' (id {:?}, an id a later send reused) was delivered although a <cancel> for its id was executed before {} ms, i.e. before its due time {} ms", ev, sendid, ctime, it.due), "cancel-ignored:id-reused-by-later-send".into()));
                    }
                }
            }
            // lost: due passed while the session was running, not cancelled, never delivered
            let due_passed = v.rec.now >= it.due;
            let cancelled = it.cancel.map(|c| !c.1).unwrap_or(false);
            if it.deliveries.is_empty() && !cancelled && !it.discarded {
                let ended_before_due = end_seq.is_some() && it.fire_time.is_none();
                if due_passed && !ended_before_due {
                    vio.push(viol("C16", "C16.lost", format!("delayed send '{}' (due {} ms, now {} ms) was neither delivered nor cancelled", ev, it.due, v.rec.now), "lost".into()));
                }
            }
            if it.discarded {
                probes.hit("ended_with_pending");
            }
        }
        // cancels for ids that were not pending (already fired or unknown)
        for (_cpos, cid) in &cancels {
            if cid == "nosuchid" || cid == "none" {
                probes.hit("cancel_after_fire_or_unknown");
            }
        }
        // order: deliveries of this session follow due order (for different due times)
        let mut dels: Vec<(u64, u64, String)> = Vec::new(); // (delivery seq, due, event)
        for it in &items {
            for (_, name, _, seq) in &it.deliveries {
                dels.push((*seq, it.due, name.clone()));
            }
        }
        dels.sort();
        for w in dels.windows(2) {
            verdict.evaluations += 1;
            if w[0].1 > w[1].1 {
                vio.push(viol("C16", "C16.order", format!("'{}' (due {}) delivered before '{}' (due {})", w[0].2, w[0].1, w[1].2, w[1].1), "order".into()));
            }
        }
        // after termination nothing is delivered. "Terminated" for this rule is the point where the platform
        // discards the session's timer (the Fsm and its Timer are dropped right after interpret() returns);
        // a callback that fires in the few instructions between the end of interpret() and that drop is the
        // boundary case the statement leaves open. If the timer is never dropped, the end of the session
        // thread counts.
        let session_task = v.rec.session_task.get(&sid).copied();
        let timer_end = v
            .log
            .iter()
            .find(|r| matches!(&r.kind, RecKind::TimerDrop { timer, .. } if own_timers.contains(timer)))
            .map(|r| r.seq)
            .or_else(|| v.log.iter().find(|r| Some(r.task) == session_task && matches!(r.kind, RecKind::ThreadEnd)).map(|r| r.seq));
        if let Some(e) = timer_end {
            for it in &items {
                for (_, name, _, seq) in &it.deliveries {
                    if *seq > e && it.fire_time.is_some() {
                        // boundary case allowed: the callback was already running when the session ended
                        let fire_seq = v.log.iter().find(|r| matches!(&r.kind, RecKind::TimerFire{item} if *item == it.item)).map(|r| r.seq).unwrap_or(0);
                        if fire_seq > e {
                            vio.push(viol("C16", "C16.after-termination", format!("'{}' fired after its session had terminated", name), "after-termination".into()));
                        }
                    }
                }
            }
        }
        // probes
        if v.rec.counters.get("jitter_clock_advance").copied().unwrap_or(0) > 0 && items.iter().any(|i| i.fire_time.is_some()) {
            probes.hit("timer_fired_while_session_busy");
        }
        {
            // a clock step that made several items due at once
            let mut by_fire: BTreeMap<u64, usize> = BTreeMap::new();
            for it in &items {
                if let Some(f) = it.fire_time {
                    *by_fire.entry(f).or_insert(0) += 1;
                }
            }
            if by_fire.values().any(|n| *n > 1) {
                probes.hit("clock_jump_over_several");
            }
        }
        verdict.nontrivial = items.len() >= 2 && (items.iter().any(|i| i.cancel.map(|c| !c.1).unwrap_or(false)) || items.iter().any(|i| i.discarded) || v.rec.counters.get("jitter_clock_advance").copied().unwrap_or(0) > 0);
        // dedupe
        let mut seen = BTreeSet::new();
        vio.retain(|x| seen.insert((x.rule.clone(), x.signature.clone())));
        verdict.violations = vio;
        verdict
    }
}
