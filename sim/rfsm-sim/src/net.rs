//! The simulated network's server side for the BasicHTTP processor (C20).
//!
//! One shuttle task ("net") owns rocket's in-process client for the server rFSM built and ignited
//! (`BasicHTTPEventIOProcessor::new`, real code up to the point where it would bind the socket) and
//! serves the requests the http seam puts on the wire, one at a time, in wire order. Routing, form
//! decoding and `rocket_receive_event` are the real code; the handler's lock and queue operations are
//! scheduling points like everywhere else, so sessions interleave with a request in flight.
//!
//! tokio: a current-thread runtime per OS thread, entered only by the driver (while it builds the
//! executor, before any other task exists) and by the net task. Nothing is ever spawned on it and
//! every future polled here completes without waiting for I/O, so the runtime never parks.

use rfsm_verif_seams::http::{self, Request, FATE_DROP_RESPONSE};
use rfsm_verif_seams::rec::{self, RecKind};
use rocket::http::ContentType;
use rocket::local::asynchronous::Client;
use rocket::{Ignite, Rocket};
use std::cell::RefCell;
use std::future::Future;

thread_local! {
    static RT: RefCell<Option<std::rc::Rc<tokio::runtime::Runtime>>> = const { RefCell::new(None) };
}

thread_local! {
    static BASE: RefCell<String> = const { RefCell::new(String::new()) };
}

pub fn set_base(b: String) {
    BASE.with(|x| *x.borrow_mut() = b);
}

pub fn base() -> String {
    BASE.with(|x| x.borrow().clone())
}

fn runtime() -> std::rc::Rc<tokio::runtime::Runtime> {
    RT.with(|r| {
        let mut r = r.borrow_mut();
        if r.is_none() {
            let rt = tokio::runtime::Builder::new_current_thread().enable_all().build().expect("tokio runtime");
            *r = Some(std::rc::Rc::new(rt));
        }
        r.as_ref().unwrap().clone()
    })
}

pub fn block_on<F: Future>(f: F) -> F::Output {
    runtime().block_on(f)
}

/// The server rFSM handed to the http seam, with the addresses it would listen on.
pub fn take_server() -> Option<(Rocket<Ignite>, Vec<String>)> {
    let b = http::take_server()?;
    let server = *b.downcast::<Rocket<Ignite>>().ok()?;
    let port = server.config().port;
    let addr = server.config().address;
    let mut bases = vec![format!("http://{}:{}", addr, port)];
    if addr.is_loopback() {
        bases.push(format!("http://localhost:{}", port));
    }
    Some((server, bases))
}

/// Drive a future that never waits for I/O to completion on the calling task, without entering the tokio
/// runtime (several simulated tasks do this at the same time on one OS thread; `block_on` cannot nest).
fn poll_now<F: Future>(f: F) -> F::Output {
    let mut f = std::pin::pin!(f);
    let waker = std::task::Waker::noop();
    let mut cx = std::task::Context::from_waker(waker);
    for _ in 0..10_000 {
        if let std::task::Poll::Ready(v) = f.as_mut().poll(&mut cx) {
            return v;
        }
    }
    panic!("harness: in-process HTTP dispatch is waiting for something outside the simulation");
}

fn handle(client: &Client, bases: &[String], rq: Request) {
    let copy: u8 = if rq.reply.is_some() { 0 } else { 1 };
    let path = bases.iter().find_map(|b| rq.url.strip_prefix(b.as_str()).filter(|p| p.is_empty() || p.starts_with('/'))).map(|p| p.to_string());
    let answer = match path {
        None => {
            // nobody listens there
            rec::bump("http_unreachable");
            rec::push(RecKind::HttpDispatch { req: rq.req, copy, path: "<unreachable>".into() });
            None
        }
        Some(path) => {
            rec::push(RecKind::HttpDispatch { req: rq.req, copy, path: path.clone() });
            let body = rq.body.clone();
            let (status, text) = poll_now(async {
                let resp = client.post(path).header(ContentType::Form).body(body).dispatch().await;
                let status = resp.status().code;
                let text = resp.into_string().await.unwrap_or_default();
                (status, text)
            });
            rec::push(RecKind::HttpHandled { req: rq.req, copy, status, body: text.clone() });
            Some((status, text))
        }
    };
    http::handled();
    if let Some(tx) = rq.reply {
        if rq.fate == FATE_DROP_RESPONSE {
            rec::bump("http_fault_drop_response");
            let _ = tx.send(None);
        } else {
            let _ = tx.send(answer);
        }
    }
}

/// Body of the net task: accepts requests from the wire and hands each one to a worker task of its own,
/// like rocket's worker pool: handlers run concurrently with each other and with the sessions.
pub fn serve(server: Rocket<Ignite>, bases: Vec<String>, wire: shuttle::sync::mpsc::Receiver<Request>) {
    let rt = runtime();
    let _ctx = rt.enter();
    let client = match rt.block_on(Client::untracked(server)) {
        Ok(c) => std::sync::Arc::new(c),
        Err(e) => panic!("harness: rocket local client: {:?}", e),
    };
    let bases = std::sync::Arc::new(bases);
    let mut workers = Vec::new();
    let mut n = 0usize;
    while let Ok(rq) = wire.recv() {
        let c = client.clone();
        let b = bases.clone();
        n += 1;
        let h = shuttle::thread::Builder::new().name(format!("http_worker_{}", n)).spawn(move || handle(&c, &b, rq)).unwrap();
        workers.push(h);
    }
    for h in workers {
        let _ = h.join();
    }
    match std::sync::Arc::try_unwrap(client) {
        Ok(c) => rt.block_on(async move { drop(c) }),
        Err(_) => panic!("harness: HTTP client still shared at the end of the run"),
    }
}
