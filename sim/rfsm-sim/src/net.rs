//! The simulated network's server side for the BasicHTTP processor (C20).
//!
//! One shuttle task ("net") owns rocket's in-process client for the server rFSM built and ignited
//! (`BasicHTTPEventIOProcessor::new`, real code up to the point where it would bind the socket) and
//! serves the requests the http seam puts on the wire, one at a time, in wire order. Routing, form
//! decoding and `rocket_receive_event` are the real code; the handler's lock and queue operations are
//! scheduling points like everywhere else, so sessions interleave with a request in flight.
//!
//! tokio: a current-thread runtime per OS thread, entered only by the driver (while it builds the
//! executor, before any other task exists) and by the net task. Nothing is ever spawned on it and
//! every future polled here completes without waiting for I/O, so the runtime never parks.

use rfsm_verif_seams::http::{self, Request, FATE_DROP_RESPONSE};
use rfsm_verif_seams::rec::{self, RecKind};
use rocket::http::ContentType;
use rocket::local::asynchronous::Client;
use rocket::{Ignite, Rocket};
use std::cell::RefCell;
use std::future::Future;

thread_local! {
    static RT: RefCell<Option<std::rc::Rc<tokio::runtime::Runtime>>> = const { RefCell::new(None) };
}

thread_local! {
    static BASE: RefCell<String> = const { RefCell::new(String::new()) };
}

pub fn set_base(b: String) {
    BASE.with(|x| *x.borrow_mut() = b);
}

pub fn base() -> String {
    BASE.with(|x| x.borrow().clone())
}

fn runtime() -> std::rc::Rc<tokio::runtime::Runtime> {
    RT.with(|r| {
        let mut r = r.borrow_mut();
        if r.is_none() {
            let rt = tokio::runtime::Builder::new_current_thread().enable_all().build().expect("tokio runtime");
            *r = Some(std::rc::Rc::new(rt));
        }
        r.as_ref().unwrap().clone()
    })
}

pub fn block_on<F: Future>(f: F) -> F::Output {
    runtime().block_on(f)
}

/// The server rFSM handed to the http seam, with the addresses it would listen on.
pub fn take_server() -> Option<(Rocket<Ignite>, Vec<String>)> {
    let b = http::take_server()?;
    let server = *b.downcast::<Rocket<Ignite>>().ok()?;
    let port = server.config().port;
    let addr = server.config().address;
    let mut bases = vec![format!("http://{}:{}", addr, port)];
    if addr.is_loopback() {
        bases.push(format!("http://localhost:{}", port));
    }
    Some((server, bases))
}

/// Body of the net task.
pub fn serve(server: Rocket<Ignite>, bases: Vec<String>, wire: shuttle::sync::mpsc::Receiver<Request>) {
    let client = match block_on(Client::untracked(server)) {
        Ok(c) => c,
        Err(e) => panic!("harness: rocket local client: {:?}", e),
    };
    while let Ok(rq) = wire.recv() {
        let copy: u8 = if rq.reply.is_some() { 0 } else { 1 };
        let path = bases.iter().find_map(|b| rq.url.strip_prefix(b.as_str()).filter(|p| p.is_empty() || p.starts_with('/'))).map(|p| p.to_string());
        let answer = match path {
            None => {
                // nobody listens there
                rec::bump("http_unreachable");
                rec::push(RecKind::HttpDispatch { req: rq.req, copy, path: "<unreachable>".into() });
                None
            }
            Some(path) => {
                rec::push(RecKind::HttpDispatch { req: rq.req, copy, path: path.clone() });
                let body = rq.body.clone();
                let (status, text) = block_on(async {
                    let resp = client.post(path).header(ContentType::Form).body(body).dispatch().await;
                    let status = resp.status().code;
                    let text = resp.into_string().await.unwrap_or_default();
                    (status, text)
                });
                rec::push(RecKind::HttpHandled { req: rq.req, copy, status, body: text.clone() });
                Some((status, text))
            }
        };
        http::handled();
        if let Some(tx) = rq.reply {
            if rq.fate == FATE_DROP_RESPONSE {
                rec::bump("http_fault_drop_response");
                let _ = tx.send(None);
            } else {
                let _ = tx.send(answer);
            }
        }
    }
    block_on(async move { drop(client) });
}
