mod engine;
mod gen;
mod hooks;
mod net;
mod props;
mod refsm;
mod scenario;
mod sched;
mod sim;
mod trace;
mod util;

use engine::*;
use serde_json::{json, Value};
use std::collections::{BTreeMap, BTreeSet};
use std::sync::Arc;
use std::time::Instant;

fn verif_dir() -> String {
    std::env::var("VERIF_DIR").unwrap_or_else(|_| "/verif".to_string())
}

fn env_seed() -> u64 {
    std::env::var("VERIF_SEED").ok().and_then(|s| s.trim().parse::<u64>().ok()).unwrap_or(DEFAULT_SEED)
}

fn parse_tier(s: &str) -> Tier {
    match s {
        "thorough" => Tier::Thorough,
        _ => Tier::Quick,
    }
}

fn arg_val(args: &[String], key: &str) -> Option<String> {
    args.iter().position(|a| a == key).and_then(|i| args.get(i + 1).cloned())
}

fn main() {
    // rocket reads its configuration from ROCKET_* (C20): no console logging from the simulated server
    std::env::set_var("ROCKET_LOG_LEVEL", "off");
    std::env::set_var("ROCKET_CLI_COLORS", "false");
    let args: Vec<String> = std::env::args().collect();
    if args.len() < 2 {
        eprintln!("usage: rfsm-sim check <ID> <quick|thorough> | worker ... | replay <file> | selftest-determinism <ID> | show <ID> <index> [sched]");
        std::process::exit(2);
    }
    let code = match args[1].as_str() {
        "check" => cmd_check(&args),
        "worker" => cmd_worker(&args),
        "replay" => cmd_replay(&args),
        "selftest-determinism" => cmd_determinism(&args),
        "digest" => cmd_digest(&args),
        "show" => cmd_show(&args),
        "trace" => cmd_trace(&args),
        _ => {
            eprintln!("unknown command {}", args[1]);
            2
        }
    };
    std::process::exit(code);
}

fn cmd_worker(args: &[String]) -> i32 {
    let id = &args[2];
    let prop = match props::by_id(id) {
        Some(p) => p,
        None => return 2,
    };
    let tier = parse_tier(&arg_val(args, "--tier").unwrap_or_default());
    let wa = WorkerArgs {
        verif_seed: arg_val(args, "--seed").and_then(|s| s.parse().ok()).unwrap_or(DEFAULT_SEED),
        tier,
        worker: arg_val(args, "--worker").and_then(|s| s.parse().ok()).unwrap_or(0),
        workers: arg_val(args, "--workers").and_then(|s| s.parse().ok()).unwrap_or(1),
        replay_dir: format!("{}/replays", verif_dir()),
        known_path: format!("{}/known-findings.json", verif_dir()),
        max_violations: 3,
        workloads_override: arg_val(args, "--workloads").and_then(|s| s.parse().ok()),
    };
    let st = worker_loop(prop, &wa);
    let out = arg_val(args, "--out").unwrap_or_else(|| "/dev/stdout".into());
    std::fs::write(&out, serde_json::to_string(&stats_to_json(&st)).unwrap()).expect("write worker output");
    0
}

fn merge_count(dst: &mut BTreeMap<String, u64>, v: &Value) {
    if let Some(o) = v.as_object() {
        for (k, x) in o {
            *dst.entry(k.clone()).or_insert(0) += x.as_u64().unwrap_or(0);
        }
    }
}

fn cmd_check(args: &[String]) -> i32 {
    let id = args.get(2).cloned().unwrap_or_default();
    let prop = match props::by_id(&id) {
        Some(p) => p,
        None => {
            eprintln!("unknown property {}", id);
            return 2;
        }
    };
    let tier = parse_tier(std::env::var("VERIF_TIER").ok().as_deref().or(args.get(3).map(|s| s.as_str())).unwrap_or("quick"));
    let tier = if let Some(t) = args.get(3) { parse_tier(t) } else { tier };
    let seed = env_seed();
    let workers: u64 = arg_val(args, "--workers").and_then(|s| s.parse().ok()).unwrap_or_else(|| std::thread::available_parallelism().map(|n| n.get() as u64).unwrap_or(8).min(16));
    let workloads_override = arg_val(args, "--workloads");
    let t0 = Instant::now();
    println!("# check {} tier={} VERIF_SEED={} workers={}", id, tier.name(), seed, workers);
    let exe = std::env::current_exe().unwrap();
    let tmp = std::env::temp_dir().join(format!("rfsm-sim-{}-{}", id, std::process::id()));
    let _ = std::fs::create_dir_all(&tmp);
    let mut children = Vec::new();
    for w in 0..workers {
        let out = tmp.join(format!("w{}.json", w));
        let mut c = std::process::Command::new(&exe);
        c.arg("worker").arg(&id).arg("--tier").arg(tier.name()).arg("--seed").arg(seed.to_string()).arg("--worker").arg(w.to_string()).arg("--workers").arg(workers.to_string()).arg("--out").arg(&out);
        if let Some(n) = &workloads_override {
            c.arg("--workloads").arg(n);
        }
        c.env_remove("SHUTTLE_RANDOM_SEED");
        c.stderr(std::process::Stdio::from(std::fs::File::create(tmp.join(format!("w{}.err", w))).unwrap()));
        children.push((w, out, c.spawn().expect("spawn worker")));
    }
    let mut agg: BTreeMap<&str, u64> = BTreeMap::new();
    let mut maps: BTreeMap<&str, BTreeMap<String, u64>> = BTreeMap::new();
    let mut nontrivial: BTreeSet<u64> = BTreeSet::new();
    let mut all_sigs: BTreeSet<u64> = BTreeSet::new();
    let mut violations: Vec<(Violation, String)> = Vec::new();
    let mut samples: Vec<Value> = Vec::new();
    let mut harness_errors: Vec<String> = Vec::new();
    let mut steps_max = 0u64;
    for (w, out, mut ch) in children {
        let status = ch.wait().expect("wait worker");
        if !status.success() {
            let err = std::fs::read_to_string(tmp.join(format!("w{}.err", w))).unwrap_or_default();
            harness_errors.push(format!("worker {} exited with {:?}: {}", w, status.code(), err.lines().rev().take(5).collect::<Vec<_>>().join(" / ")));
            continue;
        }
        let v: Value = match std::fs::read_to_string(&out).ok().and_then(|s| serde_json::from_str(&s).ok()) {
            Some(v) => v,
            None => {
                harness_errors.push(format!("worker {} wrote no result", w));
                continue;
            }
        };
        for k in ["workloads", "runs", "completed", "discarded", "evaluations", "sched_points", "context_switches", "sim_time_ms"] {
            *agg.entry(k).or_insert(0) += v[k].as_u64().unwrap_or(0);
        }
        steps_max = steps_max.max(v["steps_max"].as_u64().unwrap_or(0));
        for k in ["discarded_reasons", "sched_mix", "probes", "fault_kinds", "lock_edges", "other_rules", "known", "outcomes"] {
            merge_count(maps.entry(k).or_default(), &v[k]);
        }
        for s in v["nontrivial_sigs"].as_array().cloned().unwrap_or_default() {
            nontrivial.insert(s.as_u64().unwrap_or(0));
        }
        for s in v["all_sigs"].as_array().cloned().unwrap_or_default() {
            all_sigs.insert(s.as_u64().unwrap_or(0));
        }
        for x in v["violations"].as_array().cloned().unwrap_or_default() {
            if let Ok(vi) = serde_json::from_value::<Violation>(x["v"].clone()) {
                violations.push((vi, x["path"].as_str().unwrap_or("").to_string()));
            }
        }
        if samples.len() < 3 {
            for s in v["samples"].as_array().cloned().unwrap_or_default() {
                if samples.len() < 3 {
                    samples.push(s);
                }
            }
        }
        for h in v["harness_errors"].as_array().cloned().unwrap_or_default() {
            harness_errors.push(h.as_str().unwrap_or("").to_string());
        }
    }
    let _ = std::fs::remove_dir_all(&tmp);
    let wall = t0.elapsed().as_secs_f64();

    // probes that must have been reached
    let probes = maps.get("probes").cloned().unwrap_or_default();
    let mut missing: Vec<String> = Vec::new();
    for p in prop.required_probes() {
        if probes.get(p).copied().unwrap_or(0) == 0 {
            missing.push(p.to_string());
        }
    }
    let runs = *agg.get("runs").unwrap_or(&0);
    let discarded = *agg.get("discarded").unwrap_or(&0);

    // dedupe violations by (rule, signature)
    let mut seen: BTreeSet<(String, String)> = BTreeSet::new();
    violations.retain(|(v, _)| seen.insert((v.rule.clone(), v.signature.clone())));

    let known = maps.get("known").cloned().unwrap_or_default();
    for (k, n) in &known {
        println!("KNOWN-FINDING: {} (seen {} times)", k, n);
    }
    for (v, path) in &violations {
        println!("VIOLATION property={} replay={}", v.property, path);
        println!("  rule={} signature={} :: {}", v.rule, v.signature, v.msg);
    }

    let mut real_code = vec!["scxml_reader", "fsm (interpreter)", "executable_content", "datamodel (null, rfsm-expression incl. expression_engine, ecmascript/boa)", "ScxmlEventIOProcessor", "FsmExecutor", "serializer reader/writer"];
    let mut stubs = vec!["OS scheduler + std::sync + std::thread -> shuttle (SeqCst)", "timer crate -> simulated timer wheel on a simulated clock", "std RandomState of HashMap/HashSet -> SipHasher seeded per run (collections seam)"];
    if id == "C20" {
        real_code.push("BasicHTTPEventIOProcessor (new, rocket_receive_event, send, get_location, shutdown), FsmExecutor::new_with_io_processor");
        real_code.push("rocket 0.5 routing, form decoding and responder (in-process dispatch of rocket::local)");
        stubs.push("rocket's TCP listener and the ureq client -> simulated network (http seam): form_urlencoded serializer as in ureq::send_form, fault plan per request");
    }
    let evidence = json!({
        "property_id": id,
        "tier": tier.name(),
        "seed": seed,
        "level": prop.level(),
        "coverage": {
            "evaluations": *agg.get("evaluations").unwrap_or(&0),
            "distinct_nontrivial": nontrivial.len(),
            "rule": prop.nontrivial_rule(),
            "samples": samples,
            "workloads_generated": *agg.get("workloads").unwrap_or(&0),
            "simulated_runs": runs,
            "runs_completed_and_judged": *agg.get("completed").unwrap_or(&0),
            "runs_discarded": discarded,
            "discarded_reasons": maps.get("discarded_reasons"),
            "run_outcomes": maps.get("outcomes"),
            "runs_per_hour": if wall > 0.0 { (runs as f64 / wall * 3600.0) as u64 } else { 0 },
            "simulated_time_ms_covered": *agg.get("sim_time_ms").unwrap_or(&0),
            "scheduler_mix": maps.get("sched_mix"),
            "scheduling_decisions": *agg.get("sched_points").unwrap_or(&0),
            "context_switches": *agg.get("context_switches").unwrap_or(&0),
            "max_steps_in_a_run": steps_max,
            "distinct_interleavings": all_sigs.len(),
            "interleaving_measure": "distinct (scenario hash, hash of the task chosen at every context switch) pairs",
            "fault_kinds_fired": probes.iter().filter(|(k, _)| k.contains("fault")).map(|(k, v)| (k.clone(), *v)).collect::<BTreeMap<String, u64>>(),
            "probes": probes,
            "lock_order_edges_observed": maps.get("lock_edges"),
            "other_rules_seen": maps.get("other_rules"),
            "known_findings_seen": known,
            "real_code": real_code,
            "stubs": stubs,
            "exhaustive": false
        },
        "assumptions": prop.assumptions(),
        "wall_s": wall,
        "violations": violations.len(),
        "harness_errors": harness_errors,
        "missing_required_probes": missing,
    });
    let epath = format!("{}/evidence/{}.json", verif_dir(), id);
    let _ = std::fs::create_dir_all(format!("{}/evidence", verif_dir()));
    std::fs::write(&epath, serde_json::to_string_pretty(&evidence).unwrap()).expect("write evidence");
    println!(
        "# {} runs ({} judged, {} discarded), {} oracle evaluations, {} distinct non-trivial, {:.1}s wall, evidence {}",
        runs,
        agg.get("completed").unwrap_or(&0),
        discarded,
        agg.get("evaluations").unwrap_or(&0),
        nontrivial.len(),
        wall,
        epath
    );
    if !violations.is_empty() {
        return 1;
    }
    if !harness_errors.is_empty() {
        for h in &harness_errors {
            println!("HARNESS-ERROR: {}", h);
        }
        return 2;
    }
    if !missing.is_empty() {
        println!("HARNESS-ERROR: workload did not reach required conditions: {:?}", missing);
        return 2;
    }
    if runs > 0 && discarded * 5 > runs {
        println!("HARNESS-ERROR: too many discarded runs ({} of {})", discarded, runs);
        return 2;
    }
    0
}

fn cmd_replay(args: &[String]) -> i32 {
    let path = match args.get(2) {
        Some(p) => p,
        None => return 2,
    };
    let txt = match std::fs::read_to_string(path) {
        Ok(t) => t,
        Err(e) => {
            eprintln!("cannot read {}: {}", path, e);
            return 2;
        }
    };
    let rf: ReplayFile = match serde_json::from_str(&txt) {
        Ok(r) => r,
        Err(e) => {
            eprintln!("cannot parse {}: {}", path, e);
            return 2;
        }
    };
    let prop_id = rf.rule.split('.').next().unwrap_or(&rf.property).to_string();
    let prop = match props::by_id(&rf.property).or_else(|| props::by_id(&prop_id)) {
        Some(p) => p,
        None => return 2,
    };
    let sc = Arc::new(rf.scenario.clone());
    let kind = sched::SchedKind::Replay { choices: rf.choices.clone(), randoms: rf.randoms.clone() };
    let mut probes = Probes::default();
    let jd = judge(prop, &sc, kind, 0, rf.hash_seed, &mut probes);
    let same_tree = rf.repo_src_hash.is_empty() || rf.repo_src_hash == repo_src_hash();
    if let sim::Outcome::ReplayDiverged(d) = &jd.exec.outcome {
        if same_tree {
            println!("REPLAY-DIVERGED: {}", d);
            return 2;
        }
        println!("not reproduced: /repo/src differs from the tree this replay was recorded on and the recorded schedule no longer applies ({})", d);
        return 0;
    }
    let digest = format!("{:016x}", history_digest(&jd.exec.rec.log));
    let same = jd.verdict.violations.iter().find(|v| v.rule == rf.rule);
    match same {
        Some(v) => {
            println!("VIOLATION property={} replay={}", v.property, path);
            println!("  rule={} signature={} :: {}", v.rule, v.signature, v.msg);
            if digest != rf.history_digest {
                if same_tree {
                    println!("REPLAY-DIVERGED: history digest {} != recorded {}", digest, rf.history_digest);
                    return 2;
                }
                println!("  (history differs from the recording: /repo/src changed since)");
                return 1;
            }
            println!("  history digest {} reproduced exactly ({} scheduling choices)", digest, rf.choices.len());
            1
        }
        None => {
            if same_tree {
                println!("REPLAY-DIVERGED: rule {} not reproduced on the recorded tree (digest {} vs {})", rf.rule, digest, rf.history_digest);
                return 2;
            }
            println!("not reproduced: rule {} does not fire on the current /repo/src (which differs from the recorded tree)", rf.rule);
            0
        }
    }
}

/// prints one line per (workload, schedule): digest of the full history. Used by the determinism self-test.
fn cmd_digest(args: &[String]) -> i32 {
    let id = &args[2];
    let prop = match props::by_id(id) {
        Some(p) => p,
        None => return 2,
    };
    let from: u64 = arg_val(args, "--from").and_then(|s| s.parse().ok()).unwrap_or(0);
    let to: u64 = arg_val(args, "--to").and_then(|s| s.parse().ok()).unwrap_or(100);
    let stride: u64 = arg_val(args, "--stride").and_then(|s| s.parse().ok()).unwrap_or(1);
    let seed = env_seed();
    let tier = Tier::Quick;
    let mut idx = from;
    while idx < to {
        let wseed = workload_seed(seed, prop.id(), idx);
        let mut rng = util::Rng::new(wseed);
        let sc = Arc::new(prop.generate(&mut rng.fork(), tier, idx));
        let mut est = 64usize;
        for j in 0..prop.schedules_per_workload(tier) {
            let mut srng = util::Rng::new(util::mix2(wseed, 0x5c4ed + j as u64));
            let kind = prop.sched_kind(&mut srng, j, est);
            let sseed = srng.next();
            let hseed = util::mix2(wseed, 0x4a54 + j as u64);
            let ex = execute(&sc, kind, sseed, hseed, prop.max_steps());
            est = est.max(ex.sched.decisions);
            println!("{} {} {:016x} {:?}", idx, j, history_digest(&ex.rec.log), std::mem::discriminant(&ex.outcome));
        }
        idx += stride;
    }
    0
}

fn cmd_determinism(args: &[String]) -> i32 {
    // run `digest` twice in separate processes, once as 1 process and once split over k processes; compare
    let id = args.get(2).cloned().unwrap_or_default();
    let n: u64 = arg_val(args, "--n").and_then(|s| s.parse().ok()).unwrap_or(400);
    let exe = std::env::current_exe().unwrap();
    let run = |from: u64, to: u64, stride: u64| -> String {
        let o = std::process::Command::new(&exe)
            .args(["digest", &id, "--from", &from.to_string(), "--to", &to.to_string(), "--stride", &stride.to_string()])
            .stderr(std::process::Stdio::null())
            .output()
            .expect("run digest");
        String::from_utf8_lossy(&o.stdout).to_string()
    };
    let t0 = Instant::now();
    let single = run(0, n, 1);
    let mut a: Vec<String> = single.lines().map(|s| s.to_string()).collect();
    a.sort();
    let k = 8u64;
    let handles: Vec<std::thread::JoinHandle<String>> = (0..k)
        .map(|w| {
            let exe = exe.clone();
            let id = id.clone();
            std::thread::spawn(move || {
                let o = std::process::Command::new(&exe)
                    .args(["digest", &id, "--from", &w.to_string(), "--to", &n.to_string(), "--stride", &k.to_string()])
                    .stderr(std::process::Stdio::null())
                    .output()
                    .expect("run digest");
                String::from_utf8_lossy(&o.stdout).to_string()
            })
        })
        .collect();
    let mut b: Vec<String> = Vec::new();
    for h in handles {
        b.extend(h.join().unwrap().lines().map(|s| s.to_string()));
    }
    b.sort();
    let diffs = a.iter().zip(b.iter()).filter(|(x, y)| x != y).count() + (a.len() as i64 - b.len() as i64).unsigned_abs() as usize;
    println!("determinism self-test {}: {} (workload,schedule) histories, 1-process vs {}-process batches, {} differences, {:.1}s", id, a.len(), k, diffs, t0.elapsed().as_secs_f64());
    if diffs > 0 {
        for (x, y) in a.iter().zip(b.iter()).filter(|(x, y)| x != y).take(5) {
            println!("  {} | {}", x, y);
        }
        return 2;
    }
    0
}

fn cmd_show(args: &[String]) -> i32 {
    let id = &args[2];
    let prop = match props::by_id(id) {
        Some(p) => p,
        None => return 2,
    };
    let idx: u64 = args.get(3).and_then(|s| s.parse().ok()).unwrap_or(0);
    let j: usize = args.get(4).and_then(|s| s.parse().ok()).unwrap_or(0);
    let seed = env_seed();
    let wseed = workload_seed(seed, prop.id(), idx);
    let mut rng = util::Rng::new(wseed);
    let sc = Arc::new(prop.generate(&mut rng.fork(), Tier::Quick, idx));
    for d in &sc.docs {
        println!("--- doc {}\n{}", d.name, d.xml);
    }
    println!("script: {:?}\nproducers: {:?}\nnotes: {:?}", sc.script, sc.producers, sc.notes);
    let mut srng = util::Rng::new(util::mix2(wseed, 0x5c4ed + j as u64));
    let kind = prop.sched_kind(&mut srng, j, 64);
    let sseed = srng.next();
    let hseed = util::mix2(wseed, 0x4a54 + j as u64);
    let mut probes = Probes::default();
    let jd = judge(prop, &sc, kind, sseed, hseed, &mut probes);
    for x in &jd.exec.rec.log {
        println!("{:5} t{} s{} @{} {:?}", x.seq, x.task, x.session, x.time, x.kind);
    }
    println!("outcome {:?}", jd.exec.outcome);
    println!("violations {:?}", jd.verdict.violations);
    println!("discarded {:?} nontrivial {} probes {:?}", jd.verdict.discarded, jd.verdict.nontrivial, probes.counts);
    0
}


/// prints the full recorded history of a replay file's run (diagnostics)
fn cmd_trace(args: &[String]) -> i32 {
    let txt = std::fs::read_to_string(&args[2]).expect("read replay");
    let rf: ReplayFile = serde_json::from_str(&txt).expect("parse replay");
    let prop = props::by_id(&rf.property).expect("property");
    let sc = Arc::new(rf.scenario.clone());
    let kind = sched::SchedKind::Replay { choices: rf.choices.clone(), randoms: rf.randoms.clone() };
    let mut probes = Probes::default();
    let jd = judge(prop, &sc, kind, 0, rf.hash_seed, &mut probes);
    for x in &jd.exec.rec.log {
        println!("{:5} t{} s{} @{} {:?}", x.seq, x.task, x.session, x.time, x.kind);
    }
    println!("outcome {:?}", jd.exec.outcome);
    for v in &jd.verdict.violations {
        println!("VIOLATION {} {} :: {}", v.rule, v.signature, v.msg);
    }
    0
}
