mod hooks;
mod sched;
mod sim;
mod util;

use rfsm_verif_seams::{driver, rec};
use rufsm::fsm::Event;
use rufsm::fsm_executor::FsmExecutor;

const DOC: &str = r#"<scxml xmlns="http://www.w3.org/2005/07/scxml" version="1.0" datamodel="rfsm-expression" name="smoke" initial="a">
  <datamodel><data id="n" expr="0"/></datamodel>
  <state id="a">
    <onentry><script>mark('enter a')</script></onentry>
    <transition event="go" target="b"><assign location="n" expr="n + 1"/><script>mark('t', n, _event.name)</script></transition>
  </state>
  <state id="b">
    <onentry><send event="tick" delay="2s"/></onentry>
    <transition event="tick" target="c"/>
    <transition event="go" target="a"/>
  </state>
  <final id="c"/>
</scxml>"#;

fn main() {
    let r = sim::run_one(
        || {
            driver::init();
            rufsm::fsm::verif_reset_counters();
            rufsm::tracer::set_tracer_factory(Box::new(hooks::RecordingTracerFactory));
            let executor = FsmExecutor::new_without_io_processor();
            let fsm = rufsm::scxml_reader::parse_from_xml(DOC.to_string()).unwrap();
            let session = rufsm::fsm::start_fsm_with_data_and_finish_mode(fsm, hooks::new_actions(), Box::new(executor.clone()), &[], rufsm::fsm::FinishMode::KEEP_CONFIGURATION);
            driver::wait_quiescent();
            session.sender.send(Box::new(Event::new_simple("go"))).unwrap();
            driver::wait_quiescent();
            if let Some(d) = rec::with(|r| r.next_due()) {
                rfsm_verif_seams::timer::advance_to(d);
            }
            driver::wait_quiescent();
            let mut session = session;
            session.thread.take().unwrap().join().unwrap();
            let fc = session.global_data.lock().unwrap().final_configuration.clone();
            rec::push(rec::RecKind::Driver { what: format!("final {:?}", fc) });
            let sg = rec::with(|r| std::mem::take(&mut r.session_global));
            drop(sg);
        },
        sim::RunCfg { kind: sched::SchedKind::Random, sched_seed: 1, hash_seed: 1, max_steps: 100000, record_log: true, stack_size: 1 << 20 },
    );
    println!("outcome {:?}", r.outcome);
    println!("sched: {} choices, {} decisions", r.sched.choices.len(), r.sched.decisions);
    for x in &r.rec.log {
        println!("{:4} t{} s{} @{} {:?}", x.seq, x.task, x.session, x.time, x.kind);
    }
}
