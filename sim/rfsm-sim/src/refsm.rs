//! Reference interpreter: an independent implementation of the W3C "Algorithm for SCXML
//! Interpretation" over the generator's document tree, with plain Vec/BTreeSet (no hashing, no
//! threads, no code shared with rFSM). It is driven by the recorded history: it consumes the external
//! events in the order the real session dequeued them and predicts everything else.

use crate::gen::{Dm, Doc, Exec, Expr, Initial, Kind, Node, Trans};
use std::collections::{BTreeMap, BTreeSet, VecDeque};

#[derive(Clone, Debug, PartialEq)]
pub enum Val {
    Int(i64),
    Str(String),
    Bool(bool),
    Arr(Vec<Val>),
    Map(BTreeMap<String, Val>),
    Null,
    /// declared, no value yet (late binding before the owning state is entered)
    Unset,
}

pub fn val_to_string(v: &Val) -> String {
    match v {
        Val::Int(i) => format!("{}", i),
        Val::Str(s) => format!("'{}'", s),
        Val::Bool(b) => format!("{}", b),
        Val::Arr(a) => format!("[{}]", a.iter().map(inner_to_string).collect::<Vec<_>>().join(",")),
        Val::Map(_) => "<map>".to_string(),
        Val::Null => "null".to_string(),
        Val::Unset => "<none>".to_string(),
    }
}

fn inner_to_string(v: &Val) -> String {
    match v {
        Val::Str(s) => s.clone(),
        other => val_to_string(other),
    }
}

#[derive(Clone, Debug, PartialEq)]
pub struct EvIn {
    pub name: String,
    pub etype: String,
    pub sendid: Option<String>,
    pub origin: Option<String>,
    pub origintype: Option<String>,
    pub invokeid: Option<String>,
    pub params: Option<Vec<(String, Val)>>,
    pub content: Option<Val>,
}

impl EvIn {
    pub fn named(name: &str, etype: &str) -> EvIn {
        EvIn { name: name.to_string(), etype: etype.to_string(), sendid: None, origin: None, origintype: None, invokeid: None, params: None, content: None }
    }
}

/// One observable step of a session, in the vocabulary shared by the real trace and the prediction.
#[derive(Clone, Debug, PartialEq)]
pub enum Obs {
    Enter(String),
    Exit(String),
    Mark { tag: String, args: Vec<String>, config: BTreeSet<String> },
    IntRecv(String),
    ExtRecv(String),
    /// internal event announced through the tracer (done.state.*)
    IntSend(String),
    /// size of the enabled transition set returned by a selection
    Enabled(usize),
    /// the session waits for the next external event (macrostep complete)
    Idle,
    /// <send> handed to the SCXML processor: (event, target, delay ms, sendid)
    Sent { event: String, target: String, delay_ms: u64, sendid: Option<String>, params: Option<Vec<(String, String)>> },
    Cancelled(String),
    /// configuration after a microstep / start-up (real: snapshot of GlobalData.configuration)
    Config(BTreeSet<String>),
    End,
}

#[derive(Clone, Debug)]
pub struct St {
    pub id: String,
    pub kind: Kind,
    pub parent: Option<usize>,
    pub children: Vec<usize>,  // without history
    pub histories: Vec<usize>, // history children
    pub depth: usize,
    pub node_path: Vec<usize>, // path of child indices from the root Node
}

pub struct Model<'a> {
    pub doc: &'a Doc,
    /// states in document order; index 0 is the <scxml> element
    pub st: Vec<St>,
    pub by_id: BTreeMap<String, usize>,
}

impl<'a> Model<'a> {
    pub fn new(doc: &'a Doc) -> Model<'a> {
        let mut m = Model { doc, st: Vec::new(), by_id: BTreeMap::new() };
        m.add(&doc.root, None, 0, vec![]);
        m
    }

    fn add(&mut self, n: &Node, parent: Option<usize>, depth: usize, path: Vec<usize>) -> usize {
        let idx = self.st.len();
        self.st.push(St { id: n.id.clone(), kind: n.kind, parent, children: vec![], histories: vec![], depth, node_path: path.clone() });
        if !n.id.is_empty() {
            self.by_id.insert(n.id.clone(), idx);
        }
        for (k, c) in n.children.iter().enumerate() {
            let mut p = path.clone();
            p.push(k);
            let ci = self.add(c, Some(idx), depth + 1, p);
            if c.kind.is_history() {
                self.st[idx].histories.push(ci);
            } else {
                self.st[idx].children.push(ci);
            }
        }
        idx
    }

    pub fn node(&self, s: usize) -> &Node {
        let mut n = &self.doc.root;
        for k in &self.st[s].node_path {
            n = &n.children[*k];
        }
        n
    }

    pub fn is_atomic(&self, s: usize) -> bool {
        self.st[s].children.is_empty() && !self.st[s].kind.is_history()
    }
    pub fn is_compound(&self, s: usize) -> bool {
        self.st[s].kind == Kind::State && !self.st[s].children.is_empty()
    }
    pub fn is_parallel(&self, s: usize) -> bool {
        self.st[s].kind == Kind::Parallel
    }
    pub fn is_history(&self, s: usize) -> bool {
        self.st[s].kind.is_history()
    }
    pub fn is_final(&self, s: usize) -> bool {
        self.st[s].kind == Kind::Final
    }

    pub fn is_descendant(&self, a: usize, b: usize) -> bool {
        let mut cur = self.st[a].parent;
        while let Some(p) = cur {
            if p == b {
                return true;
            }
            cur = self.st[p].parent;
        }
        false
    }

    /// proper ancestors of s, innermost first, up to but excluding `stop` (None = include the root)
    pub fn proper_ancestors(&self, s: usize, stop: Option<usize>) -> Vec<usize> {
        let mut out = Vec::new();
        if let Some(st) = stop {
            if st == s || self.is_descendant(st, s) {
                return out;
            }
        }
        let mut cur = self.st[s].parent;
        while let Some(p) = cur {
            if Some(p) == stop {
                break;
            }
            out.push(p);
            cur = self.st[p].parent;
        }
        out
    }

    pub fn find_lcca(&self, list: &[usize]) -> usize {
        for anc in self.proper_ancestors(list[0], None) {
            if (anc == 0 || self.is_compound(anc)) && list[1..].iter().all(|s| self.is_descendant(*s, anc)) {
                return anc;
            }
        }
        0
    }

    pub fn targets_of(&self, t: &Trans) -> Vec<usize> {
        t.targets.iter().filter_map(|x| self.by_id.get(x).copied()).collect()
    }

    pub fn initial_targets(&self, s: usize) -> Vec<usize> {
        let n = self.node(s);
        match &n.initial {
            Initial::Default => self.st[s].children.first().map(|c| vec![*c]).unwrap_or_default(),
            Initial::Attr(t) | Initial::Elem { targets: t, .. } => t.iter().filter_map(|x| self.by_id.get(x).copied()).collect(),
        }
    }

    /// Is `targets` a legal state specification relative to `scope` (all targets descendants of scope when
    /// given), i.e. can all targets be active together: for any two, their LCA must be a parallel state.
    pub fn legal_spec(&self, targets: &[usize], scope: Option<usize>) -> bool {
        if targets.is_empty() {
            return true;
        }
        if let Some(sc) = scope {
            if !targets.iter().all(|t| self.is_descendant(*t, sc)) {
                return false;
            }
        }
        for i in 0..targets.len() {
            for j in (i + 1)..targets.len() {
                let (a, b) = (targets[i], targets[j]);
                let (a, b) = (if self.is_history(a) { self.st[a].parent.unwrap() } else { a }, if self.is_history(b) { self.st[b].parent.unwrap() } else { b });
                if a == b || self.is_descendant(a, b) || self.is_descendant(b, a) {
                    return false;
                }
                // lowest common ancestor
                let anc_a: Vec<usize> = self.proper_ancestors(a, None);
                let lca = anc_a.into_iter().find(|x| self.is_descendant(b, *x)).unwrap_or(0);
                if !self.is_parallel(lca) {
                    return false;
                }
            }
        }
        true
    }

    /// Conformance of the generated document (what the generator cannot guarantee by construction).
    pub fn validate(&self) -> Result<(), String> {
        for s in 0..self.st.len() {
            let n = self.node(s);
            if self.is_history(s) {
                let p = self.st[s].parent.unwrap();
                let t = n.trans.first().ok_or("history without default transition")?;
                let tg = self.targets_of(t);
                if tg.is_empty() || tg.len() != t.targets.len() {
                    return Err("history default target unknown".into());
                }
                for x in &tg {
                    if self.is_history(*x) {
                        return Err("history default targets a history".into());
                    }
                    if self.st[s].kind == Kind::HistoryShallow {
                        if self.st[*x].parent != Some(p) {
                            return Err("shallow history default must target children".into());
                        }
                    } else if !self.is_descendant(*x, p) {
                        return Err("deep history default must target descendants".into());
                    }
                }
                if !self.legal_spec(&tg, Some(p)) {
                    return Err("history default not a legal specification".into());
                }
                continue;
            }
            if self.is_compound(s) || (s == 0 && !self.st[0].children.is_empty()) {
                let it = self.initial_targets(s);
                if it.is_empty() {
                    return Err(format!("initial of {} unresolved", self.st[s].id));
                }
                // an initial transition may target a history pseudo-state of the state itself (W3C test 579)
                if it.iter().any(|x| self.is_history(*x) && self.st[*x].parent != Some(s)) {
                    return Err("initial targets a history of another state".into());
                }
                if !self.legal_spec(&it, Some(s)) {
                    return Err(format!("initial of {} not legal", self.st[s].id));
                }
            }
            for t in &n.trans {
                let tg = self.targets_of(t);
                if tg.len() != t.targets.len() {
                    return Err("unknown target".into());
                }
                if !self.legal_spec(&tg, None) {
                    return Err(format!("targets of {} not a legal specification", t.label));
                }
            }
        }
        Ok(())
    }
}

/// event descriptor matching by whole tokens (ASCII names only; C19 is not claimed)
pub fn name_match(descriptors: &[String], name: &str) -> bool {
    for d in descriptors {
        let mut d = d.as_str();
        if d == "*" {
            return true;
        }
        loop {
            if let Some(x) = d.strip_suffix(".*") {
                d = x;
                continue;
            }
            if let Some(x) = d.strip_suffix('.') {
                d = x;
                continue;
            }
            break;
        }
        if d == "*" {
            return true;
        }
        if name == d || (name.starts_with(d) && name.as_bytes().get(d.len()) == Some(&b'.')) {
            return true;
        }
    }
    false
}

/// How strictly the reference follows the Recommendation where rFSM is known to differ; each switch is
/// tied to a known finding (see known-findings.json) and is only used to keep *other* checks usable.
#[derive(Clone, Debug, Default)]
pub struct Quirks {
    /// (repaired in rFSM, kept for experiments) an erroring <if>/<elseif> condition raises no error.execution
    pub if_cond_error_silent: bool,
    /// (repaired in rFSM, kept for experiments) an erroring <log> expression aborts the block but raises no error.execution
    pub value_error_silent: bool,
}

impl Quirks {
    /// rFSM as it is: the behaviours recorded as *open* known findings, so that the rest of a trace stays
    /// comparable. Every place where a quirk changes the prediction is recorded in `Interp::quirk_hits`
    /// and reported by the owning property's check.
    pub fn rfsm() -> Quirks {
        Quirks { if_cond_error_silent: false, value_error_silent: false }
    }
}

pub struct Interp<'a> {
    pub m: &'a Model<'a>,
    pub config: BTreeSet<usize>,
    pub history: BTreeMap<usize, Vec<usize>>,
    /// states entered in the current macrostep and not exited since (statesToInvoke)
    pub states_to_invoke: BTreeSet<usize>,
    pub iq: VecDeque<EvIn>,
    pub data: BTreeMap<String, Val>,
    pub readonly: BTreeSet<String>,
    pub running: bool,
    pub first_entry: BTreeSet<usize>,
    pub cur_event: Option<EvIn>,
    pub out: Vec<Obs>,
    pub session_id: u32,
    pub quirks: Quirks,
    pub microsteps: usize,
    pub diverged: bool,
    /// ids of delayed sends currently pending (for <cancel>)
    pub pending_sendids: BTreeSet<String>,
    /// per microstep: (index into `out` at its start, a taken transition targets a history state whose
    /// parent is active and is not exited by the microstep)
    pub micro_info: Vec<(usize, bool)>,
    pub quirk_hits: Vec<&'static str>,
    pub gen_ids: u32,
    /// index into `out` where exitInterpreter started (termination phase)
    pub term_start: Option<usize>,
}

const MAX_MICROSTEPS: usize = 2000;

impl<'a> Interp<'a> {
    pub fn new(m: &'a Model<'a>, session_id: u32) -> Interp<'a> {
        Interp {
            m,
            config: BTreeSet::new(),
            history: BTreeMap::new(),
            states_to_invoke: BTreeSet::new(),
            iq: VecDeque::new(),
            data: BTreeMap::new(),
            readonly: BTreeSet::new(),
            running: true,
            first_entry: BTreeSet::new(),
            cur_event: None,
            out: Vec::new(),
            session_id,
            quirks: Quirks::default(),
            microsteps: 0,
            diverged: false,
            pending_sendids: BTreeSet::new(),
            micro_info: Vec::new(),
            quirk_hits: Vec::new(),
            gen_ids: 0,
            term_start: None,
        }
    }

    fn names(&self, s: &BTreeSet<usize>) -> BTreeSet<String> {
        s.iter().map(|x| self.m.st[*x].id.clone()).collect()
    }

    // ------------------------------------------------------------------ expressions

    pub fn eval(&self, e: &Expr) -> Result<Val, String> {
        Ok(match e {
            Expr::Int(i) => Val::Int(*i),
            Expr::Str(s) => Val::Str(s.clone()),
            Expr::Bool(b) => Val::Bool(*b),
            Expr::Var(v) => match self.data.get(v) {
                Some(x) => x.clone(),
                None => return Err(format!("variable {} not found", v)),
            },
            Expr::Add(a, b) => match (self.eval(a)?, self.eval(b)?) {
                (Val::Int(x), Val::Int(y)) => Val::Int(x.saturating_add(y)),
                (Val::Str(x), y) => Val::Str(format!("{}{}", x, inner_to_string(&y))),
                _ => return Err("+ on unsupported types".into()),
            },
            Expr::Sub(a, b) => match (self.eval(a)?, self.eval(b)?) {
                (Val::Int(x), Val::Int(y)) => Val::Int(x.saturating_sub(y)),
                _ => return Err("- on unsupported types".into()),
            },
            Expr::Eq(a, b) => Val::Bool(self.eval(a)? == self.eval(b)?),
            Expr::Lt(a, b) => match (self.eval(a)?, self.eval(b)?) {
                (Val::Int(x), Val::Int(y)) => Val::Bool(x < y),
                (Val::Str(x), Val::Str(y)) => Val::Bool(x < y),
                _ => Val::Bool(false),
            },
            Expr::And(a, b) => match (self.eval(a)?, self.eval(b)?) {
                (Val::Bool(x), Val::Bool(y)) => Val::Bool(x && y),
                _ => return Err("& on non-boolean".into()),
            },
            Expr::Not(a) => match self.eval(a)? {
                Val::Bool(x) => Val::Bool(!x),
                _ => return Err("! on non-boolean".into()),
            },
            Expr::In(s) => Val::Bool(self.m.by_id.get(s).map(|i| self.config.contains(i)).unwrap_or(false)),
            Expr::EventName => match &self.cur_event {
                Some(ev) => Val::Str(ev.name.clone()),
                None => return Err("_event not bound".into()),
            },
            Expr::EventField(f) => match &self.cur_event {
                Some(ev) => {
                    let o = match f.as_str() {
                        "type" => Some(ev.etype.clone()),
                        "sendid" => ev.sendid.clone(),
                        "origin" => ev.origin.clone(),
                        "origintype" => ev.origintype.clone(),
                        "invokeid" => ev.invokeid.clone(),
                        "name" => Some(ev.name.clone()),
                        _ => return Err("unknown _event field".into()),
                    };
                    o.map(Val::Str).unwrap_or(Val::Null)
                }
                None => return Err("_event not bound".into()),
            },
            Expr::EventData(k) => match &self.cur_event {
                Some(ev) => match &ev.params {
                    Some(p) => match p.iter().rev().find(|x| x.0 == *k) {
                        Some(x) => x.1.clone(),
                        None => return Err("no such event data member".into()),
                    },
                    None => return Err("event data has no members".into()),
                },
                None => return Err("_event not bound".into()),
            },
            Expr::SessionId => Val::Int(self.session_id as i64),
            Expr::Name => Val::Str(self.m.doc.name.clone()),
            Expr::Array(v) => {
                let mut out = Vec::new();
                for x in v {
                    out.push(self.eval(x)?);
                }
                Val::Arr(out)
            }
            Expr::Bad(_) => return Err("bad expression".into()),
        })
    }

    fn truthy(v: &Val) -> bool {
        match v {
            Val::Int(i) => *i != 0,
            Val::Str(s) => !s.is_empty(),
            Val::Bool(b) => *b,
            Val::Arr(_) | Val::Map(_) => true,
            Val::Null | Val::Unset => false,
        }
    }

    fn error_execution(&mut self) {
        let mut e = EvIn::named("error.execution", "platform");
        e.sendid = None;
        self.iq.push_back(e);
    }

    /// transition guard: error => error.execution + false
    fn cond(&mut self, c: &Option<Expr>) -> bool {
        match c {
            None => true,
            Some(e) => {
                if self.m.doc.dm == Dm::Null {
                    // null datamodel: In() only
                    return match self.eval(e) {
                        Ok(v) => Self::truthy(&v),
                        Err(_) => {
                            self.error_execution();
                            false
                        }
                    };
                }
                match self.eval(e) {
                    Ok(v) => Self::truthy(&v),
                    Err(_) => {
                        self.error_execution();
                        false
                    }
                }
            }
        }
    }

    // ------------------------------------------------------------------ executable content

    /// returns false if the block was aborted
    pub fn run_block(&mut self, body: &[Exec]) -> bool {
        if self.m.doc.dm == Dm::Null {
            return true; // the null datamodel executes no content (DONTCARE)
        }
        for x in body {
            if !self.run_exec(x) {
                return false;
            }
        }
        true
    }

    fn run_exec(&mut self, x: &Exec) -> bool {
        match x {
            Exec::Mark(tag, args) => {
                let a: Vec<String> = args.iter().map(|e| self.eval(e).map(|v| val_to_string(&v)).unwrap_or_else(|_| "<error>".into())).collect();
                let config = self.names(&self.config);
                self.out.push(Obs::Mark { tag: tag.clone(), args: a, config });
                true
            }
            Exec::Assign { loc, expr } if loc.ends_with(']') && loc.contains('[') => {
                // element of an array variable: name[index]
                let (name, idx) = loc.trim_end_matches(']').split_once('[').unwrap();
                let idx: usize = idx.parse().unwrap_or(usize::MAX);
                let v = self.eval(expr);
                let ok = match (v, self.data.get_mut(name)) {
                    (Ok(val), Some(Val::Arr(a))) if idx < a.len() && !matches!(val, Val::Unset) => {
                        a[idx] = val;
                        true
                    }
                    _ => false,
                };
                if !ok {
                    self.error_execution();
                }
                ok
            }
            Exec::Assign { loc, expr } => {
                let v = self.eval(expr);
                // location: a declared, writable variable (or a member of one)
                let base = loc.split('.').next().unwrap_or("").to_string();
                let ok = match v {
                    Err(_) => false,
                    Ok(Val::Unset) => false,
                    Ok(val) => {
                        if !self.data.contains_key(&base) || self.readonly.contains(&base) {
                            false
                        } else if loc.contains('.') {
                            false // members of system variables are not assignable; the generator has no other maps
                        } else {
                            self.data.insert(base.clone(), val);
                            true
                        }
                    }
                };
                if !ok {
                    self.error_execution();
                }
                ok
            }
            Exec::Raise(e) => {
                self.iq.push_back(EvIn::named(e, "internal"));
                true
            }
            Exec::If { arms, els } => {
                for (c, body) in arms {
                    let r = match self.eval(c) {
                        Ok(v) => Self::truthy(&v),
                        Err(_) => {
                            if !self.quirks.if_cond_error_silent {
                                self.error_execution();
                            } else {
                                self.quirk_hits.push("if-cond-error:no-error.execution");
                            }
                            false
                        }
                    };
                    if r {
                        return self.run_block_inner(body);
                    }
                }
                if let Some(b) = els {
                    return self.run_block_inner(b);
                }
                true
            }
            Exec::Foreach { array, item, index, body } => {
                match self.eval(array) {
                    Ok(Val::Arr(_)) if self.readonly.contains(item) || index.as_ref().map(|i| self.readonly.contains(i)).unwrap_or(false) => {
                        // a read-only system variable is not a legal location for item / index
                        self.error_execution();
                        false
                    }
                    Ok(Val::Arr(items)) => {
                        // item / index are declared if they do not exist yet, also when there is nothing to iterate over
                        if !self.data.contains_key(item) {
                            self.data.insert(item.clone(), Val::Null);
                        }
                        if let Some(ix) = index {
                            if !self.data.contains_key(ix) {
                                self.data.insert(ix.clone(), Val::Null);
                            }
                        }
                        for (i, it) in items.iter().enumerate() {
                            self.data.insert(item.clone(), it.clone());
                            if let Some(ix) = index {
                                self.data.insert(ix.clone(), Val::Int(i as i64));
                            }
                            if !self.run_block_inner(body) {
                                return false;
                            }
                        }
                        true
                    }
                    Ok(_) => {
                        self.error_execution();
                        false
                    }
                    Err(_) => {
                        self.error_execution();
                        false
                    }
                }
            }
            Exec::FailingScript(_) => {
                self.error_execution();
                false
            }
            Exec::Log(e) => match self.eval(e) {
                Ok(_) => true,
                Err(_) => {
                    if !self.quirks.value_error_silent {
                        self.error_execution();
                    } else {
                        self.quirk_hits.push("log-value-error:no-error.execution");
                    }
                    false
                }
            },
            Exec::Send { event, target, delay_ms, id, params, idlocation, .. } => {
                let mut pv = Vec::new();
                for (k, e) in params {
                    let k = k.strip_prefix("@loc:").unwrap_or(k).to_string();
                    match self.eval(e) {
                        Ok(v) => pv.push((k, v)),
                        Err(_) => self.error_execution(), // the param is ignored
                    }
                }
                let mut sendid = id.clone();
                if let Some(loc) = idlocation {
                    // the platform generates an id and stores it; its value is platform-chosen
                    self.gen_ids += 1;
                    let g = format!("<generated:{}>", self.gen_ids);
                    self.data.insert(loc.clone(), Val::Str(g.clone()));
                    sendid = Some(g);
                }
                let tgt = match target {
                    Some(t) if t.starts_with("@var:") => match self.data.get(&t[5..]) {
                        Some(Val::Str(v)) => v.clone(),
                        Some(other) => val_to_string(other),
                        None => {
                            self.error_execution();
                            return false;
                        }
                    },
                    Some(t) => t.clone(),
                    None => String::new(),
                };
                if tgt == "#_internal" {
                    if *delay_ms > 0 {
                        self.error_execution();
                        return false;
                    }
                    let mut ev = EvIn::named(event, "internal");
                    ev.sendid = sendid;
                    ev.origin = Some(format!("#_scxml_{}", self.session_id));
                    ev.origintype = Some("http://www.w3.org/TR/scxml/#SCXMLEventProcessor".into());
                    if !pv.is_empty() {
                        ev.params = Some(pv);
                    }
                    self.iq.push_back(ev);
                    return true;
                }
                if *delay_ms > 0 {
                    if let Some(i) = &sendid {
                        self.pending_sendids.insert(i.clone());
                    }
                }
                let ps = if pv.is_empty() { None } else { Some(pv.iter().map(|(k, v)| (k.clone(), val_to_string(v))).collect()) };
                self.out.push(Obs::Sent { event: event.clone(), target: tgt, delay_ms: *delay_ms, sendid, params: ps });
                true
            }
            Exec::Cancel { sendid, by_expr } => {
                let id = match by_expr {
                    Some(v) => match self.data.get(v) {
                        Some(Val::Str(s)) => s.clone(),
                        Some(other) => val_to_string(other),
                        None => return true,
                    },
                    None => sendid.clone(),
                };
                self.pending_sendids.remove(&id);
                self.out.push(Obs::Cancelled(id));
                true
            }
        }
    }

    fn run_block_inner(&mut self, body: &[Exec]) -> bool {
        for x in body {
            if !self.run_exec(x) {
                return false;
            }
        }
        true
    }

    // ------------------------------------------------------------------ algorithm

    fn effective_targets(&self, t: &Trans) -> Vec<usize> {
        let mut out: Vec<usize> = Vec::new();
        for s in self.m.targets_of(t) {
            if self.m.is_history(s) {
                if let Some(h) = self.history.get(&s) {
                    for x in h {
                        if !out.contains(x) {
                            out.push(*x);
                        }
                    }
                } else {
                    let dt = &self.m.node(s).trans[0];
                    for x in self.effective_targets(dt) {
                        if !out.contains(&x) {
                            out.push(x);
                        }
                    }
                }
            } else if !out.contains(&s) {
                out.push(s);
            }
        }
        out
    }

    fn domain(&self, src: usize, t: &Trans) -> Option<usize> {
        let ts = self.effective_targets(t);
        if ts.is_empty() {
            return None;
        }
        if t.internal && self.m.is_compound(src) && ts.iter().all(|s| self.m.is_descendant(*s, src)) {
            return Some(src);
        }
        let mut l = vec![src];
        l.extend(ts);
        Some(self.m.find_lcca(&l))
    }

    fn exit_set(&self, trans: &[(usize, &Trans)]) -> BTreeSet<usize> {
        let mut out = BTreeSet::new();
        for (src, t) in trans {
            if !t.targets.is_empty() {
                if let Some(d) = self.domain(*src, t) {
                    for s in &self.config {
                        if self.m.is_descendant(*s, d) {
                            out.insert(*s);
                        }
                    }
                }
            }
        }
        out
    }

    fn remove_conflicting(&self, enabled: Vec<(usize, &'a Trans)>) -> Vec<(usize, &'a Trans)> {
        let mut filtered: Vec<(usize, &'a Trans)> = Vec::new();
        for t1 in enabled {
            let mut preempted = false;
            let mut to_remove: Vec<usize> = Vec::new();
            let e1 = self.exit_set(&[(t1.0, t1.1)]);
            for (i, t2) in filtered.iter().enumerate() {
                let e2 = self.exit_set(&[(t2.0, t2.1)]);
                if e1.intersection(&e2).next().is_some() {
                    if self.m.is_descendant(t1.0, t2.0) {
                        to_remove.push(i);
                    } else {
                        preempted = true;
                        break;
                    }
                }
            }
            if !preempted {
                for i in to_remove.into_iter().rev() {
                    filtered.remove(i);
                }
                if !filtered.iter().any(|x| std::ptr::eq(x.1, t1.1)) {
                    filtered.push(t1);
                }
            }
        }
        filtered
    }

    fn select(&mut self, ev: Option<&EvIn>) -> Vec<(usize, &'a Trans)> {
        let atomic: Vec<usize> = self.config.iter().copied().filter(|s| self.m.is_atomic(*s)).collect();
        let mut enabled: Vec<(usize, &'a Trans)> = Vec::new();
        for a in atomic {
            let mut chain = vec![a];
            chain.extend(self.m.proper_ancestors(a, None));
            'chain: for s in chain {
                let m: &'a Model<'a> = self.m;
                for t in &m.node(s).trans {
                    let matches = match ev {
                        None => t.events.is_empty(),
                        Some(e) => !t.events.is_empty() && name_match(&t.events, &e.name),
                    };
                    if matches && self.cond(&t.cond) {
                        if !enabled.iter().any(|x| std::ptr::eq(x.1, t)) {
                            enabled.push((s, t));
                        }
                        break 'chain;
                    }
                }
            }
        }
        let r = self.remove_conflicting(enabled);
        self.out.push(Obs::Enabled(r.len()));
        r
    }

    fn add_descendants(&self, s: usize, to_enter: &mut Vec<usize>, default_entry: &mut Vec<usize>, hist_content: &mut BTreeMap<usize, &'a Trans>) {
        let m: &'a Model<'a> = self.m;
        if m.is_history(s) {
            let parent = m.st[s].parent.unwrap();
            if let Some(h) = self.history.get(&s) {
                let h = h.clone();
                for x in &h {
                    self.add_descendants(*x, to_enter, default_entry, hist_content);
                }
                for x in &h {
                    self.add_ancestors(*x, parent, to_enter, default_entry, hist_content);
                }
            } else {
                let dt: &'a Trans = &m.node(s).trans[0];
                hist_content.insert(parent, dt);
                let tg = m.targets_of(dt);
                for x in &tg {
                    self.add_descendants(*x, to_enter, default_entry, hist_content);
                }
                for x in &tg {
                    self.add_ancestors(*x, parent, to_enter, default_entry, hist_content);
                }
            }
        } else {
            if !to_enter.contains(&s) {
                to_enter.push(s);
            }
            if m.is_compound(s) {
                if !default_entry.contains(&s) {
                    default_entry.push(s);
                }
                let it = m.initial_targets(s);
                for x in &it {
                    self.add_descendants(*x, to_enter, default_entry, hist_content);
                }
                for x in &it {
                    self.add_ancestors(*x, s, to_enter, default_entry, hist_content);
                }
            } else if m.is_parallel(s) {
                for c in m.st[s].children.clone() {
                    if !to_enter.iter().any(|x| m.is_descendant(*x, c)) {
                        self.add_descendants(c, to_enter, default_entry, hist_content);
                    }
                }
            }
        }
    }

    fn add_ancestors(&self, s: usize, ancestor: usize, to_enter: &mut Vec<usize>, default_entry: &mut Vec<usize>, hist_content: &mut BTreeMap<usize, &'a Trans>) {
        let m = self.m;
        for anc in m.proper_ancestors(s, Some(ancestor)) {
            if !to_enter.contains(&anc) {
                to_enter.push(anc);
            }
            if m.is_parallel(anc) {
                for c in m.st[anc].children.clone() {
                    if !to_enter.iter().any(|x| m.is_descendant(*x, c)) {
                        self.add_descendants(c, to_enter, default_entry, hist_content);
                    }
                }
            }
        }
    }

    fn is_in_final(&self, s: usize) -> bool {
        let m = self.m;
        if m.is_compound(s) {
            m.st[s].children.iter().any(|c| m.is_final(*c) && self.config.contains(c))
        } else if m.is_parallel(s) {
            m.st[s].children.iter().all(|c| self.is_in_final(*c))
        } else {
            false
        }
    }

    fn enter_states(&mut self, trans: &[(usize, &'a Trans)]) {
        let m: &'a Model<'a> = self.m;
        let mut to_enter: Vec<usize> = Vec::new();
        let mut default_entry: Vec<usize> = Vec::new();
        let mut hist_content: BTreeMap<usize, &'a Trans> = BTreeMap::new();
        for (src, t) in trans {
            for s in m.targets_of(t) {
                self.add_descendants(s, &mut to_enter, &mut default_entry, &mut hist_content);
            }
            if let Some(d) = self.domain(*src, t) {
                for s in self.effective_targets(t) {
                    self.add_ancestors(s, d, &mut to_enter, &mut default_entry, &mut hist_content);
                }
            }
        }
        to_enter.sort();
        for s in to_enter {
            if s == 0 {
                continue;
            }
            self.out.push(Obs::Enter(m.st[s].id.clone()));
            self.config.insert(s);
            self.states_to_invoke.insert(s);
            let n = m.node(s);
            if m.doc.late && !self.first_entry.contains(&s) {
                self.first_entry.insert(s);
                for d in &n.data {
                    self.init_data(d);
                }
            }
            for b in &n.onentry {
                self.run_block(b);
            }
            if default_entry.contains(&s) {
                if let Initial::Elem { content, .. } = &n.initial {
                    self.run_block(content);
                }
            }
            if let Some(t) = hist_content.get(&s) {
                let c = t.content.clone();
                self.run_block(&c);
            }
            if m.is_final(s) {
                let parent = m.st[s].parent.unwrap();
                if parent == 0 {
                    self.running = false;
                } else {
                    let name = format!("done.state.{}", m.st[parent].id);
                    let mut ev = EvIn::named(&name, "external");
                    if let Some(dd) = &n.donedata {
                        let mut pv = Vec::new();
                        for (k, e) in &dd.params {
                            match self.eval(e) {
                                Ok(v) => pv.push((k.clone(), v)),
                                Err(_) => self.error_execution(),
                            }
                        }
                        if !pv.is_empty() {
                            ev.params = Some(pv);
                        }
                    }
                    // the announced done event with its data (donedata is evaluated after the onentry content)
                    let shown = match &ev.params {
                        Some(p) => format!("{}{{{}}}", name, p.iter().map(|(k, v)| format!("{}={}", k, val_to_string(v))).collect::<Vec<_>>().join(";")),
                        None => name.clone(),
                    };
                    self.out.push(Obs::IntSend(shown));
                    self.iq.push_back(ev);
                    if let Some(gp) = m.st[parent].parent {
                        if m.is_parallel(gp) && m.st[gp].children.iter().all(|c| self.is_in_final(*c)) {
                            let name = format!("done.state.{}", m.st[gp].id);
                            self.out.push(Obs::IntSend(name.clone()));
                            self.iq.push_back(EvIn::named(&name, "external"));
                        }
                    }
                }
            }
        }
    }

    fn init_data(&mut self, d: &crate::gen::DataDecl) {
        match &d.expr {
            Some(e) => match self.eval(e) {
                Ok(v) => {
                    self.data.insert(d.id.clone(), v);
                }
                Err(_) => {
                    self.data.insert(d.id.clone(), Val::Unset);
                    self.error_execution();
                }
            },
            None => {
                self.data.insert(d.id.clone(), Val::Null);
            }
        }
    }

    fn exit_states(&mut self, trans: &[(usize, &'a Trans)]) {
        let m: &'a Model<'a> = self.m;
        let to_exit = self.exit_set(trans);
        let mut order: Vec<usize> = to_exit.iter().copied().collect();
        order.sort();
        order.reverse();
        for s in &order {
            for h in &m.st[*s].histories {
                let v: Vec<usize> = if m.st[*h].kind == Kind::HistoryDeep {
                    self.config.iter().copied().filter(|x| m.is_atomic(*x) && m.is_descendant(*x, *s)).collect()
                } else {
                    self.config.iter().copied().filter(|x| m.st[*x].parent == Some(*s)).collect()
                };
                self.history.insert(*h, v);
            }
        }
        for s in order {
            self.out.push(Obs::Exit(m.st[s].id.clone()));
            for b in &m.node(s).onexit {
                self.run_block(b);
            }
            self.config.remove(&s);
            self.states_to_invoke.remove(&s);
        }
    }

    fn microstep(&mut self, trans: Vec<(usize, &'a Trans)>) {
        self.microsteps += 1;
        {
            let ex = self.exit_set(&trans);
            let mut hist_inside = false;
            for (_, t) in &trans {
                for s in self.m.targets_of(t) {
                    if self.m.is_history(s) {
                        let p = self.m.st[s].parent.unwrap();
                        if self.config.contains(&p) && !ex.contains(&p) {
                            hist_inside = true;
                        }
                    }
                }
            }
            self.micro_info.push((self.out.len(), hist_inside));
        }
        self.exit_states(&trans);
        for (_, t) in &trans {
            let c = t.content.clone();
            self.run_block(&c);
        }
        self.enter_states(&trans);
        self.out.push(Obs::Config(self.names(&self.config)));
    }

    /// interpret() up to the first idle point
    pub fn start(&mut self) {
        let m: &'a Model<'a> = self.m;
        // system variables
        self.data.insert("_sessionid".into(), Val::Int(self.session_id as i64));
        self.data.insert("_name".into(), Val::Str(m.doc.name.clone()));
        self.data.insert("_ioprocessors".into(), Val::Map(BTreeMap::new()));
        for r in ["_sessionid", "_name", "_ioprocessors", "_event"] {
            self.readonly.insert(r.to_string());
        }
        // data model
        if m.doc.dm != Dm::Null {
            for s in 0..m.st.len() {
                if m.is_history(s) {
                    continue;
                }
                for d in &m.node(s).data {
                    if !m.doc.late {
                        self.init_data(d);
                    } else {
                        self.data.insert(d.id.clone(), Val::Unset);
                    }
                }
            }
        }
        // late binding: the <scxml> element is entered first, its data receive their values then.
        // (With an 'initial' attribute on <scxml> rFSM never enters the root and never assigns top-level
        // data under late binding; the statement of C09 speaks of "a state's data", the generator does not
        // combine the attribute with late binding - see refsm/DONTCARE.md.)
        if m.doc.late && m.doc.dm != Dm::Null {
            for d in &m.node(0).data {
                self.init_data(d);
            }
        }
        // initial configuration
        let it = m.initial_targets(0);
        let init_trans = Trans { targets: it.iter().map(|s| m.st[*s].id.clone()).collect(), ..Default::default() };
        // the synthetic initial transition lives as long as this call
        let boxed: &'a Trans = Box::leak(Box::new(init_trans));
        self.enter_states(&[(0, boxed)]);
        self.out.push(Obs::Config(self.names(&self.config)));
        self.macrostep_rest();
    }

    /// finish the macrostep: eventless transitions first, then internal events, until stable
    fn macrostep_rest(&mut self) {
        loop {
            while self.running {
                if self.microsteps > MAX_MICROSTEPS {
                    self.diverged = true;
                    return;
                }
                let mut enabled = self.select(None);
                if enabled.is_empty() {
                    match self.iq.pop_front() {
                        None => break,
                        Some(ev) => {
                            self.out.push(Obs::IntRecv(ev.name.clone()));
                            self.cur_event = Some(ev.clone());
                            enabled = self.select(Some(&ev));
                        }
                    }
                }
                if !enabled.is_empty() {
                    self.microstep(enabled);
                }
            }
            if !self.running {
                break;
            }
            // the macrostep is complete: the invokes of the states entered during it (and still active) are
            // started, in entry order; one that cannot be started raises error.execution, and internal events
            // are handled before the next external event
            let m: &'a Model<'a> = self.m;
            let to_invoke: Vec<usize> = std::mem::take(&mut self.states_to_invoke).into_iter().collect();
            for s in to_invoke {
                for _ in 0..m.node(s).bad_invokes {
                    self.error_execution();
                }
            }
            if self.iq.is_empty() {
                break;
            }
        }
        if self.running {
            self.out.push(Obs::Idle);
        } else {
            self.exit_interpreter();
        }
    }

    fn exit_interpreter(&mut self) {
        let m: &'a Model<'a> = self.m;
        self.term_start = Some(self.out.len());
        let mut order: Vec<usize> = self.config.iter().copied().collect();
        order.sort();
        order.reverse();
        for s in order {
            for b in &m.node(s).onexit {
                self.run_block(b);
            }
            self.config.remove(&s);
        }
        self.out.push(Obs::End);
    }

    /// an external event as dequeued by the real session
    pub fn external(&mut self, ev: EvIn) {
        if !self.running {
            return;
        }
        self.out.push(Obs::ExtRecv(ev.name.clone()));
        if ev.name == "error.platform.cancel" {
            self.running = false;
            self.exit_interpreter();
            return;
        }
        self.cur_event = Some(ev.clone());
        let enabled = self.select(Some(&ev));
        if !enabled.is_empty() {
            self.microstep(enabled);
        }
        self.macrostep_rest();
    }
}
